"""C15 — at most one script execution is in flight per Nextline object.  Model A."""
from __future__ import annotations

from typing import Any

from .. import common, lifecycle
from . import _life

KINDS = {'cs', 'ps', 'ret', 'blocked', 'st'}


def oracle_serial(r: dict) -> list[str]:
    msgs = []
    running = False
    for op, rep in zip(r['ops'], r['impl']):
        if rep == 'skipped':
            continue
        g = lifecycle.group(rep)
        toks = rep.split()
        if int(g['lc'][0]) > 1:
            msgs.append(f'{g["lc"][0]} child processes alive after {op!r}')
        ncs = sum(1 for t in toks if t.startswith('cs:'))
        if ncs and running:
            msgs.append(f'a child was started by {op!r} while a run was in progress')
        if ncs > 1:
            msgs.append(f'{ncs} children started by one request')
        if op.split()[0] in ('run', 'rac', 'rcw', 'reset') and running and any(t.startswith('ret:') and t.endswith(':ok') for t in toks):
            msgs.append(f'{op!r} was accepted while a run was in progress')
        if 'ps:finished' in toks and g['lc'][0] != '0' and not any(t.startswith('cs:') for t in toks):
            msgs.append("'finished' was published while the child was still alive")
        if ncs:
            running = True
        if 'ps:finished' in toks:
            running = False
    return msgs


def cancel_run_case(k: int) -> dict:
    """The task that called run() is cancelled k scheduler steps after the request (a `wait_for` time-out, a cancelled request
    handler).  Whatever becomes of the request, the invariants hold: no child alive in a state other than 'running', never two."""
    import asyncio
    from .. import fakes, loop as ctl
    from nextline.spawned import RunResult

    async def main() -> dict:
        sc = lifecycle.Scenario(0, 1, False, False)
        await sc.setup()
        await sc.op('start')
        nl = sc.nl
        t = asyncio.ensure_future(nl.run())
        for _ in range(k):
            await asyncio.sleep(0)
        t.cancel()
        try:
            await t
        except BaseException:  # noqa
            pass
        await lifecycle.settle()
        out: dict = {'k': k, 'state_after_cancel': nl.state, 'live_after_cancel': len(sc.world.live()), 'max_live': len(sc.world.live())}
        # the caller carries on: reset and run again
        for _ in range(2):
            for call in (nl.reset, nl.run):
                try:
                    await asyncio.wait_for(call(), timeout=5)
                except BaseException:  # noqa
                    pass
                await lifecycle.settle()
                out['max_live'] = max(out['max_live'], len(sc.world.live()))
        for c in sc.world.live():
            c.exit(RunResult(ret=None), exitcode=0)
        await lifecycle.settle()
        try:
            await asyncio.wait_for(nl.close(), timeout=5)
        except BaseException:  # noqa
            pass
        return out
    fakes.install()
    try:
        return ctl.run(main, ctl.Fifo())
    except (Exception, ctl.StepBudgetExceeded) as e:  # noqa
        return {'k': k, 'error': f'{type(e).__name__}: {e}'}


def overlap_reset_run_case(d: int, slow_hook: bool) -> dict:
    """reset() from one task, run() from another d scheduler steps later (optionally with a plugin whose reset hook is slow, which
    widens the window), then another run(): whoever wins, a child is alive only in state 'running' and there is never more than one."""
    import asyncio
    from .. import fakes, loop as ctl
    from nextline.spawned import RunResult

    async def main() -> dict:
        from nextline.plugin.spec import hookimpl
        sc = lifecycle.Scenario(0, 1, False, False)
        await sc.setup()
        nl = sc.nl
        if slow_hook:
            class Slow:
                @hookimpl
                async def reset(self, context: Any, reset_options: Any) -> None:
                    for _ in range(6):
                        await asyncio.sleep(0)
            nl.register(Slow())
        await sc.op('start')
        t1 = asyncio.ensure_future(nl.reset())
        for _ in range(d):
            await asyncio.sleep(0)
        t2 = asyncio.ensure_future(nl.run())
        await asyncio.gather(t1, t2, return_exceptions=True)
        await lifecycle.settle()
        out: dict = {'d': d, 'slow_hook': slow_hook, 'state': nl.state, 'live': len(sc.world.live()), 'max_live': len(sc.world.live())}
        try:
            await asyncio.wait_for(nl.run(), timeout=5)
        except BaseException:  # noqa
            pass
        await lifecycle.settle()
        out['max_live'] = max(out['max_live'], len(sc.world.live()))
        for c in sc.world.live():
            c.exit(RunResult(ret=None), exitcode=0)
        await lifecycle.settle()
        try:
            await asyncio.wait_for(nl.close(), timeout=5)
        except BaseException:  # noqa
            pass
        return out
    fakes.install()
    try:
        return ctl.run(main, ctl.Fifo())
    except (Exception, ctl.StepBudgetExceeded) as e:  # noqa
        return {'d': d, 'slow_hook': slow_hook, 'error': f'{type(e).__name__}: {e}'}


def run(chk: common.Check) -> None:
    chk.cov.rule = ('serial histories (as C01) over several run cycles; the number of live simulated children is sampled after every operation; '
                    'compared with the Lean model on child starts, state publications and call results; overlapping run/run, run/reset, reset/run, '
                    'run/close from 2–3 tasks under the permuting loop with live children sampled after every scheduler step (oracle only). '
                    'Non-trivial: a request was issued while a run was in progress; distinct = distinct (options, history, schedule kind).')
    chk.assumptions += ['serial histories; hooks do not raise']
    L = 3 if chk.tier == 'quick' else 4
    scen = _life.gen_serial(chk, L, 1500 if chk.tier == 'quick' else 20000)
    rows = _life.run_serial(chk, scen)

    def nontrivial(r: dict) -> bool:
        seen_run = False
        for op, rep in zip(r['ops'], r['impl']):
            if seen_run and op.split()[0] in ('run', 'rac', 'rcw', 'reset') and 'lc=1' in rep:
                return True
            if 'cs:' in rep:
                seen_run = True
        return False
    _life.coverage(chk, rows, nontrivial)
    chk.cov.exhaustive = True
    chk.cov.extra['exhaustive_scope'] = f'all serial histories of length ≤ {L} over {_life.ALPHABET}'
    oracle_fail = []
    for r in rows:
        if r['error']:
            oracle_fail.append(({'init': r['init'], 'ops': r['ops']}, [f'scenario failed: {r["error"]}'], None))
            continue
        m = oracle_serial(r)
        if m:
            oracle_fail.append(({'init': r['init'], 'ops': r['ops'], 'schedule': r['schedule'], 'implementation': r['impl']}, m, None))
    dis = _life.compare(rows, KINDS)
    conc = _life.run_concurrent(chk, 400 if chk.tier == 'quick' else 8000)
    for c in conc:
        chk.cov.case(('conc', c['seed']))
        chk.cov.count('kinds', 'concurrent')
        if c['max_live_children'] > 1:
            oracle_fail.append((c, [f'{c["max_live_children"]} child processes alive at once (overlapping calls {c["calls"]})'], None))
        if c['child_alive_at_finished']:
            oracle_fail.append((c, [f"'finished' published while a child was alive (overlapping calls {c['calls']})"], 'overlap_child_alive_at_finished'))
    for slow_hook in (False, True):
        for d in range(0, 5):
            r = overlap_reset_run_case(d, slow_hook)
            chk.cov.case(('overlap-reset-run', d, slow_hook))
            chk.cov.count('kinds', 'overlap-reset-then-run')
            m = []
            if 'error' in r:
                m.append(f'scenario failed: {r["error"]}')
            else:
                if r['live'] and r['state'] != 'running':
                    m.append(f"reset() and, {d} scheduler steps later, run() from another task: state {r['state']} with {r['live']} child process(es) alive")
                if r['max_live'] > 1:
                    m.append(f"reset() and, {d} steps later, run() from another task, then run() again: {r['max_live']} child processes alive at once")
            if m:
                oracle_fail.append(({'overlap_reset_run': r}, m, None))
    for k in range(2, 10):        # (k = 1 lands in the window of open finding F-A3: the object is left in 'running' without a run)
        r = cancel_run_case(k)
        chk.cov.case(('cancel-run-caller', k))
        chk.cov.count('kinds', 'run-caller-cancelled')
        m = []
        if 'error' in r:
            m.append(f'scenario failed: {r["error"]}')
        else:
            if r['live_after_cancel'] and r['state_after_cancel'] != 'running':
                m.append(f"the caller of run() was cancelled {k} scheduler steps after the request: state {r['state_after_cancel']} with "
                         f"{r['live_after_cancel']} child process(es) alive")
            if r['max_live'] > 1:
                m.append(f"the caller of run() was cancelled {k} steps after the request, then reset()/run(): {r['max_live']} child processes alive at once")
        if m:
            oracle_fail.append(({'cancel_run_caller': r}, m, None))
    # real spawn children: when 'finished' is published no child process of the object is alive — also for a script whose process
    # takes seconds to exit after the script has returned (a non-daemon thread it left behind, thread tracing off)
    rs = [{'statement': 'import threading, time\nthreading.Thread(target=time.sleep, args=(4.5,)).start()\nx = 1\n', 'mode': 'continuous',
           'trace_threads': False, 'timeout': 40, 'why': 'slow-exit'},
          {'statement': 'x = 1\ny = 2\n', 'policy': {'kind': 'all', 'command': 'next'}, 'timeout': 40, 'why': 'plain'},
          {'statement': 'import time\ntime.sleep(0.2)\nx = 1\n', 'policy': {'kind': 'all', 'command': 'next'}, 'timeout': 40,
           'signal': {'kind': 'kill', 'at_prompt': 1}, 'why': 'kill'}]
    for r in common.real_runs(rs, jobs=3, hard_timeout=90):
        sp = r['spec']
        rec = r['rec']
        chk.cov.case(('real', sp['why']))
        chk.cov.count('kinds', 'real-child-' + sp['why'])
        if rec is None or not rec.get('finished'):
            oracle_fail.append(({'real_run': sp}, [f'real run did not finish: {(rec or {}).get("errors")}'], None))
            continue
        alive = rec.get('children_alive_at_finished')
        if alive is None or any(a for a in alive):
            oracle_fail.append(({'real_run': sp}, [f"'finished' was published while child processes {alive} of the object were alive"], None))
    _life.finish(chk, 'C15', oracle_fail, dis, 'child starts, state publications, call results')
