"""Encoding of recorder streams for the Lean driver `nlvmodel bdb` (model D2), grouping of the real prompts per trace,
the mapping of traces to recorder entities, and the program families of the C05 sweep."""
from __future__ import annotations

import fnmatch
import itertools
import random
import re
from typing import Any, Optional

KIND = {'call': 'c', 'line': 'l', 'return': 'r', 'exception': 'x'}
RESUMING = {'step', 'next', 'return', 'until', 'continue'}


def tok(s: Any) -> str:
    if s is None:
        return '~'
    s = ''.join(ch if not ch.isspace() else '_' for ch in str(s))
    return s or '_'


def script_module() -> str:
    from nextline.spawned.plugin.plugins import _script
    return _script.__name__


def skip_list() -> list[str]:
    from nextline.spawned.plugin import skip
    return sorted(skip.MODULES_TO_SKIP)


def entity_lines(stream: list, no: int, entering: bool, cmds: list[str], dflt: str) -> list[str]:
    """protocol lines for one entity: `ent`, then its `f`/`e` records, then `end`"""
    out = [f"ent {no} {1 if entering else 0} {dflt} {' '.join(cmds)}".rstrip()]
    for r in stream:
        if r[0] == 'f':
            _, fid, par, gen, mod, fn = r
            out.append(f"f {fid} {'-' if par is None else par} {gen} {tok(mod)} {tok(fn)}")
        else:
            _, fid, line, ev, xk, deep = r
            out.append(f"e {fid} {'-' if line is None else line} {KIND[ev]} {xk} {'-' if deep is None else deep}")
    out.append('end')
    return out


def parse_prompts(reply: str) -> list[tuple[int, str]]:
    assert reply.startswith('prompts:'), reply
    out = []
    for w in reply[len('prompts:'):].split():
        a, b = w.split(':')
        out.append((None if a == '-' else int(a), b))
    return out


_LOC = re.compile(r'^> (.*)\((\d+|None)\)([^()\n]*)\(\)', re.M)


def shown_function(prompt_text: str) -> Optional[str]:
    """the function name Pdb prints in the stack entry of the prompt (that of `curframe`)"""
    # the LAST stack entry of the text: what Pdb printed in command loops that nextline refused (events that reached Pdb through a
    # patched f_trace) stays in its output buffer and is prepended to the text of the next prompt
    m = _LOC.findall(prompt_text)
    return m[-1][2] if m else None


def real_prompts(events: list[dict]) -> tuple[dict, dict, dict, list]:
    """traced events → (trace → [(line, event, file, function shown by Pdb)], trace → [commands], trace → (thread no, task no),
    traces in start order)"""
    prompts: dict = {}
    cmds: dict = {}
    info: dict = {}
    order: list = []
    for e in events:
        t = e.get('trace_no')
        ty = e['_type']
        if ty == 'OnStartTrace':
            info[t] = (e['thread_no'], e['task_no'])
            order.append(t)
            prompts.setdefault(t, [])
            cmds.setdefault(t, [])
        elif ty == 'OnStartPrompt':
            prompts.setdefault(t, []).append((e['line_no'], e['event'], e['file_name'], shown_function(e['prompt_text'])))
        elif ty == 'OnEndPrompt':
            cmds.setdefault(t, []).append(e['command'])
    return prompts, cmds, info, order


def frame_table(stream: list) -> dict:
    """fid → (module, function, isgen) (last entry wins; these fields never change for a frame)"""
    return {r[1]: (r[4], r[5], r[3]) for r in stream if r[0] == 'f'}


def accepted_frames(stream: list, script: str, trace_modules: bool, skip: Optional[list] = None) -> dict:
    """fid → (module, function, isgen) of the frames in which the PROPERTY allows prompts (written from the statement, independent
    of the Lean filter): module tracing off: the script's module and not a lambda; on: not a lambda and not on the skip list"""
    acc: dict = {}
    for fid, (mod, fn, gen) in frame_table(stream).items():
        if fn == '<lambda>':
            continue
        if trace_modules:
            if mod is not None and any(fnmatch.fnmatch(mod, p) for p in (skip or [])):
                continue
        elif mod != script:
            continue
        acc[fid] = (mod, fn, gen)
    return acc


def first_location(stream: list, acc: dict) -> Optional[int]:
    """line of the first line event of an accepted frame"""
    for r in stream:
        if r[0] == 'e' and r[3] == 'line' and r[1] in acc:
            return r[2]
    return None


def map_traces(rec: dict, prompts: dict, order: list, script: str, trace_modules: bool, skip: list) -> dict:
    """trace number → recorder entity key, by the location of the trace's first prompt (= the entity's first line event in an
    acceptable frame); ties by order of appearance.  Traces without a counterpart map to None."""
    ents = list(rec['order'])
    firsts = {k: first_location(rec['stream'][k], accepted_frames(rec['stream'][k], script, trace_modules, skip)) for k in ents}
    free = [k for k in ents if firsts[k] is not None]
    out: dict = {}
    for t in order:
        ps = prompts.get(t) or []
        cand = [k for k in free if ps and firsts[k] == ps[0][0]]
        if not cand:
            out[t] = None
            continue
        out[t] = cand[0]
        free.remove(cand[0])
    return out


def is_subsequence(a: list, b: list) -> bool:
    it = iter(b)
    return all(any(x == y for y in it) for x in a)


# ---------------------------------------------------------------------------
# program families
# ---------------------------------------------------------------------------

PRELUDE = '''def f(x):
    y = x + 1
    return y
def g(n):
    for i in range(n):
        yield i
def r(x):
    raise ValueError(x)
a = 1
'''

BLOCKS = {
    'A': 'a = f(a)\n',
    'B': 'a += (lambda q: q + 1)(a)\n',
    'C': 'for k in g(2):\n    a += k\n',
    'D': 'try:\n    r(a)\nexcept ValueError:\n    a = 0\n',
    'E': 'if a % 2:\n    a += 1\nelse:\n    a -= 1\n',
    'F': 'a = sum(g(a % 3))\n',
    'G': 'a = (lambda q: f(q))(a)\n',
    'H': 'while a < 3:\n    a = f(a)\n',
    # as the last block: the script's implicit return has no line number (`frame.f_lineno is None`)
    'I': 'while a < 6:\n    a += 1\n    try:\n        raise ValueError(a)\n    except ValueError as e:\n        a += 1\n',
}


def exhaustive_programs(maxlen: int) -> list[str]:
    """all sequences of ≤ maxlen blocks of the reduced grammar"""
    out = []
    for n in range(1, maxlen + 1):
        for combo in itertools.product(sorted(BLOCKS), repeat=n):
            out.append(PRELUDE + ''.join(BLOCKS[c] for c in combo))
    return out


TEMPLATES = {
    'generators': '''import contextlib
def g(n):
    for i in range(n):
        yield i
    return 7
def h(n):
    r = yield from g(n)
    yield r
def f(x):
    if x > 1:
        raise ValueError(x)
    return x
def k(x):
    try:
        return f(x)
    finally:
        x += 1
@contextlib.contextmanager
def cm():
    a = 1
    yield a
    a = 2
s = 0
for v in h(2):
    s += v
it = g(3)
next(it)
it.close()
try:
    k(2)
except ValueError as e:
    s += 1
w = (lambda q: f(q) + k(q))(1)
with cm() as c:
    s += c
def rec(n):
    if n == 0:
        return 0
    return 1 + rec(n - 1)
rec(2)
z = sorted([3, 1, 2], key=(lambda t: t))
class K:
    y = f(0)
    def m(self):
        return self.y
K().m()
gen = (q * 2 for q in range(2))
s += sum(gen)
it2 = h(1)
for v in it2:
    break
del it2
k(3)
''',
    'callers-without-trace': '''import threading, heapq
def f1(x):
    return x + 1
def f2(x):
    y = x * 2
    return y
w = (lambda q: (f1(q),
                f2(q),
                f1(q)))(1)
def key(v):
    return -v
m = list(heapq.merge([3, 1], [2], key=key))
def body():
    t = f1(1)
    t += f2(t)
    return t
th = threading.Thread(target=body)
th.start()
th.join()
def gen():
    a = yield 1
    b = yield f1(a)
    return b
g = gen()
next(g)
g.send(3)
try:
    g.send(4)
except StopIteration as e:
    r = e.value
lam = lambda: [f2(i) for i in range(2)]
lam()
''',
    'exceptions': '''def a(n):
    if n == 0:
        raise KeyError(n)
    try:
        return a(n - 1)
    finally:
        n += 1
def b(n):
    try:
        a(n)
    except KeyError as e:
        return -1
    return 0
x = b(2)
def c():
    for i in range(3):
        try:
            if i == 1:
                raise ValueError(i)
        except ValueError:
            continue
        finally:
            x = i
    return x
y = c()
def d():
    yield 1
    raise RuntimeError('in generator')
try:
    for v in d():
        y += v
except RuntimeError:
    y = 0
try:
    a(1)
except KeyError:
    pass
raise SystemExit(3)
''',
}

TASKS_WITH_EXCEPTIONS = '''import asyncio
def boom(x):
    raise KeyError(x)
async def sub(n):
    await asyncio.sleep(0)
    if n:
        boom(n)
    return n
async def agen(n):
    for i in range(n):
        await asyncio.sleep(0)
        yield i
async def task_a():
    a = 0
    await asyncio.sleep(0)
    try:
        await sub(1)
    except KeyError:
        a += 1
    a += await sub(0)
    async for v in agen(2):
        a += v
    try:
        boom(2)
    except KeyError:
        a += 1
    return a
async def task_b():
    b = 0
    for i in range(2):
        await asyncio.sleep(0)
        b += i
    try:
        boom(3)
    except KeyError:
        b += 1
    b += 1
    return b
async def amain():
    r = await asyncio.gather(task_a(), task_b())
    x = await sub(0)
    try:
        boom(4)
    except KeyError:
        x += 1
    return r
res = asyncio.run(amain())
'''

# the smallest witness of finding F-D2: a task, one suspension, an exception raised in a callee and caught by the task
TASK_NEXT_WITNESS = '''import asyncio
def boom():
    raise KeyError(1)
async def body():
    await asyncio.sleep(0)
    try:
        boom()
    except KeyError:
        x = 1
    y = 2
    return y
asyncio.run(body())
'''

MODULES_ON = {
    # a user module that is never at a prompt while it is being created (`next` over the exec); a thread whose first frame is one of
    # its functions; later the main thread calls the same function: whether a frame is accepted depends on who is calling, not on the
    # code object alone
    'user-module-thread-first': '''import types, threading
src = "def f(x):\\n    y = x + 1\\n    return y\\n"
mod = types.ModuleType('c05_user_mod')
exec(compile(src, 'c05_user_mod.py', 'exec'), mod.__dict__)
t = threading.Thread(target=mod.f, args=(1,))
t.start()
t.join()
z = mod.f(2)
w = mod.f(3)
''',
    'stdlib': '''import json, textwrap, string
def f(x):
    t = string.capwords('ab cd')
    return json.dumps({'a': x})
a = f(1)
w = textwrap.shorten('hello world foo', 9)
b = (lambda q: q + 1)(2)
c = json.loads(a)
''',
    'stdlib-threads': '''import threading, json, statistics
def body_a():
    s = json.dumps([1, 2])
    return len(s)
def body_b():
    m = statistics.mean([1, 2, 3])
    return m
ts = [threading.Thread(target=body_a), threading.Thread(target=body_b)]
for t in ts:
    t.start()
for t in ts:
    t.join()
z = json.dumps({'k': [1, (lambda q: q)(2)]})
''',
}


def without_print(src: str) -> str:
    """the same program with `print` replaced by a no-op defined in the script (module tracing on: a `print` descends into the
    stdout hook, which is nextline's in the traced run and the harness's in the recorder run — the two streams would differ)"""
    return '_out = lambda *a, **k: None\n' + src.replace('print(', '_out(')


def mix(seed: int, choices: list[str]) -> dict:
    return {'kind': 'random', 'seed': seed, 'choices': choices}


MIX_A = ['step', 'next', 'return', 'until', 'continue', 'step', 'next']
MIX_B = ['step', 'next', 'return', 'until']
MIX_C = ['step', 'step', 'next', 'until']
ALL = [{'kind': 'all', 'command': c} for c in ('step', 'next', 'continue', 'return', 'until')]


def gen_specs(rng: random.Random, tier: str) -> list[dict]:
    from .. import progs
    quick = tier == 'quick'
    specs: list[dict] = []

    def add(src: str, pol: dict, kind: str, tt: bool = True, tm: bool = False, timeout: int = 20) -> None:
        specs.append({'source': src, 'policy': pol, 'trace_threads': tt, 'trace_modules': tm, 'kind': kind, 'timeout': timeout,
                      'want_reference': tm})      # the reference run warms the caches of the standard library (module tracing on)
    # X: exhaustive over the reduced grammar
    for i, src in enumerate(exhaustive_programs(3 if quick else 4)):
        for pol in (ALL[:3] if quick else ALL):      # quick: step, next, continue (+ a mix); return/until on the random programs and templates
            add(src, pol, 'exhaustive')
        add(src, mix(i, MIX_A if i % 2 else MIX_B), 'exhaustive')
    # S: random sequential programs of the shared generator
    for i in range(120 if quick else 2000):
        src = progs.sequential(random.Random(rng.randrange(1 << 30)), rng.choice([4, 6, 8, 12, 16]))
        for pol in ALL:
            add(src, pol, 'sequential')
        add(src, mix(i, MIX_A), 'sequential')
        add(src, mix(i + 1000, MIX_B), 'sequential')
        add(src, mix(i + 2000, MIX_C), 'sequential')
        if i % 10 == 0:
            for pol in ALL + [mix(i, MIX_B)]:
                add(without_print(src), pol, 'sequential-modules', tm=True)
    # T: templates (generators, yield from, close, context managers, callers without a trace function, exceptions)
    for name, src in TEMPLATES.items():
        for pol in ALL + [mix(s, [MIX_A, MIX_B, MIX_C][s % 3]) for s in range(12 if quick else 120)]:
            add(src, pol, 'template-' + name)
    # C: threads and tasks, thread tracing on and off
    for i in range(40 if quick else 400):
        nt, na = rng.randint(0, 3), rng.randint(0, 3)
        if nt + na == 0:
            nt = 1
        src, _ = progs.concurrent(random.Random(rng.randrange(1 << 30)), nt, na, nested=rng.random() < 0.3, pool=False)
        for j, pol in enumerate(ALL + [mix(i, MIX_A), mix(i, MIX_B)]):
            for tt in (True, False):
                if tt or (i + j) % 2 == 0:
                    add(src, pol, 'concurrent', tt=tt, timeout=40)
        if i % 8 == 0:
            # not all-step: with module tracing on, stepping in the main thread descends into nextline's own task-done callbacks,
            # which the recorder's run does not have (allowed by the property: "unless module tracing is on")
            for pol in ALL[1:]:
                add(without_print(src), pol, 'concurrent-modules', tm=True, timeout=40)
    # L: the main thread steps on while tasks and threads are answered `continue` late (after they were suspended and resumed)
    for i in range(12 if quick else 120):
        nt, na = rng.randint(0, 2), rng.randint(1, 3)
        src, _ = progs.concurrent(random.Random(rng.randrange(1 << 30)), nt, na, nested=False, pool=False)
        for main_cmd in ('next', 'step'):
            for k in (1, 2, 3, 5):
                pol = {'kind': 'by_trace', 'main': {'kind': 'all', 'command': main_cmd},
                       'others': {'kind': 'seq', 'commands': [('next', 'step')[(i + k) % 2]] * k, 'then': 'continue'}}
                add(src, pol, 'continue-late', timeout=40)
    # A: tasks with exceptions raised in callees (Pdb's choice of the current frame)
    for pol in ALL + [mix(s, [MIX_A, MIX_B, MIX_C][s % 3]) for s in range(12 if quick else 120)]:
        add(TASKS_WITH_EXCEPTIONS, pol, 'tasks-exceptions', timeout=40)
    for pol in ALL:
        add(TASK_NEXT_WITNESS, pol, 'task-next-witness', timeout=40)
    for k in (4, 5, 6, 7, 8, 9):
        # the main thread answers `next` k times (creating the module without ever stepping into it) and `step` from then on
        add(MODULES_ON['user-module-thread-first'], {'kind': 'by_trace', 'main': {'kind': 'seq', 'commands': ['next'] * k, 'then': 'step'},
                                                     'others': {'kind': 'all', 'command': 'step'}}, 'modules-user-module', tm=True, timeout=40)
    # M: module tracing on, descending into the standard library
    for name, src in MODULES_ON.items():
        for pol in ALL + [mix(s, [MIX_A, MIX_B, MIX_C][s % 3]) for s in range(9 if quick else 90)]:
            add(src, pol, 'modules-' + name, tm=True, timeout=40)
    return specs


OUTLIVING = 'outliving-callers'


def outliving_specs(rng: random.Random, tier: str) -> list[dict]:
    """O: scripts that start threads and do not join them; the threads go on calling functions of the script after the main thread has
    run off the script's end (`progs.outliving_callers`: handshake so that every thread is traced before the script ends, an event set by
    the script's last statement, then a pause).  A thread is a thread of the statement for as long as it executes lines of the script:
    all-step prompts it at every one of them, `next` at the lines of its own function, `continue` never again."""
    from .. import progs
    specs: list[dict] = []
    for i in range(3 if tier == 'quick' else 30):
        src, info = progs.outliving_callers(random.Random(rng.randrange(1 << 30)), nthreads=1 + i % 2)
        late_step = {'kind': 'all', 'command': 'step'}
        pols = ALL + [mix(i, MIX_C), mix(i + 50, MIX_A),
                      {'kind': 'by_trace', 'main': {'kind': 'all', 'command': 'continue'}, 'others': late_step},
                      {'kind': 'by_trace', 'main': {'kind': 'all', 'command': 'next'}, 'others': late_step}]
        for pol in pols:
            specs.append({'source': src, 'policy': pol, 'trace_threads': True, 'trace_modules': False, 'kind': OUTLIVING, 'timeout': 40,
                          'want_reference': False, 'late_calls': info['late_calls']})
        specs.append({'source': src, 'policy': late_step, 'trace_threads': False, 'trace_modules': False, 'kind': OUTLIVING, 'timeout': 40,
                      'want_reference': False, 'late_calls': info['late_calls']})
    return specs


def unprompted_lines(stream: list, real: list, script: str, skip: Optional[list] = None) -> list[int]:
    """the lines (module tracing off) of the line events this entity executed in frames where prompts are allowed that have no prompt of
    their own, matching prompts to events greedily in order (for the message of a failed all-step comparison)"""
    acc = accepted_frames(stream, script, False, skip)
    want = [r[2] for r in stream if r[0] == 'e' and r[3] == 'line' and r[1] in acc]
    got = [p[0] for p in real if p[1] == 'line']
    missing = []
    j = 0
    for line in want:
        if j < len(got) and got[j] == line:
            j += 1
        else:
            missing.append(line)
    return missing
