"""Shared machinery of the trace-pipeline properties (C04, C05, C06, C09): run generated programs through the
child's real trace machinery in-process (worker processes), encode event streams for the Lean driver."""
from __future__ import annotations

import multiprocessing as mp
import random
from typing import Any, Optional

from .. import common, inproc, progs

EVENTS = ['line', 'call', 'return', 'exception']


class Intern:
    def __init__(self) -> None:
        self.m: dict = {'': 0}

    def __call__(self, s: Any) -> int:
        if s not in self.m:
            self.m[s] = len(self.m)
        return self.m[s]


def _suffix_min(keys: list, at: dict) -> dict:
    """pos[k] = min over k' >= k of at[k'] (keys sorted ascending)"""
    out: dict = {}
    cur = None
    for k in sorted(keys, reverse=True):
        cur = at[k] if cur is None else min(cur, at[k])
        out[k] = cur
    return out


def witness(events: list[dict]) -> dict:
    """Where the hidden number-drawing steps of model D1 must have happened, computed from the whole stream.

    Numbers are drawn from global counters in increasing order, each by the entity that later emits it; the draw lies
    after that entity's previous emission and before the emission of the number.  Lazy placement — draw number m
    immediately before the earliest emission of any number >= m of the same kind — is feasible whenever any placement is.
    Returns {stream index: [hint lines to insert before that event]}.  An infeasible stream still gets hints (the model
    then rejects it)."""
    st_at: dict = {}
    ids: dict = {}
    sc_at: dict = {}
    sp_at: dict = {}
    sc_ev: dict = {}
    sp_tr: dict = {}
    for i, e in enumerate(events):
        t = e['_type']
        if t == 'OnStartTrace' and e['trace_no'] not in st_at:
            st_at[e['trace_no']] = i
            ids[e['trace_no']] = (e['thread_no'], e['task_no'])
        elif t == 'OnStartTraceCall' and e['trace_call_no'] not in sc_at:
            sc_at[e['trace_call_no']] = i
            sc_ev[e['trace_call_no']] = e
        elif t == 'OnStartPrompt' and e['prompt_no'] not in sp_at:
            sp_at[e['prompt_no']] = i
            sp_tr[e['prompt_no']] = e['trace_no']
    pos_tr = _suffix_min(list(st_at), st_at)
    # thread numbers: drawn by the first entity of each thread (program order within a thread = emission order)
    first: dict = {}
    for tno in sorted(st_at, key=lambda k: st_at[k]):
        first.setdefault(ids[tno][0], tno)
    pos_thr = _suffix_min(list(first), {th: pos_tr[tno] for th, tno in first.items()})
    hints: dict = {}

    def add(pos: int, prio: tuple, line: str) -> None:
        hints.setdefault(pos, []).append((prio, line))
    for tno in st_at:
        th, ta = ids[tno]
        ent = f"{th} {'-' if ta is None else ta}"
        p_ids = pos_thr[th] if first[th] == tno else pos_tr[tno]
        add(p_ids, (0, th, ta or 0), f'h ids {ent}')
        add(pos_tr[tno], (1, tno, 0), f'h trace {ent}')
    return {'hints': hints, 'pos_call': _suffix_min(list(sc_at), sc_at), 'pos_prompt': _suffix_min(list(sp_at), sp_at),
            'sc_ev': sc_ev, 'sp_tr': sp_tr, 'add': add}


def encode(events: list[dict], teardown: bool = False) -> list[str]:
    """event dicts (child-side order) → protocol lines of `nlvmodel trace`: one `e` line per event, preceded by the `h` lines
    of the hidden steps (see `witness`).  With `teardown` (streams of runs that ended by themselves) the hidden exit of the plugin
    context (model D1t) is placed as late as it can be: right before the last event if that is the end of a trace (the main
    thread's own trace ends after the exit), else at the very end — the model then demands that every other trace has ended by
    then and that nothing but that one end follows."""
    I = Intern()
    w = witness(events)
    pend: list = []      # (kind, number) whose hint must wait for interned values

    def call_args(e: dict) -> str:
        return f"{I(e['file_name'])} {e['line_no'] if e['line_no'] is not None else 0} {e.get('frame_object_id', 0) % 100000} {EVENTS.index(e['event']) if e['event'] in EVENTS else 9}"
    # interning must follow stream order of the *events*; hints of a call carry the same interned values as its event,
    # so intern file names in a first pass in the order the old encoding used (event order)
    for e in events:
        if e['_type'] == 'OnStartTraceCall':
            I(e['file_name'])
        elif e['_type'] == 'OnStartPrompt':
            I('T' + e['prompt_text'])
        elif e['_type'] == 'OnEndPrompt' and e['command']:
            I(e['command'])
        elif e['_type'] == 'OnWriteStdout':
            I('W' + e['text'])
    for m, pos in w['pos_call'].items():
        e = w['sc_ev'][m]
        w['add'](pos, (2, m, 0), f"h call {e['trace_no']} {call_args(e)}")
    for m, pos in w['pos_prompt'].items():
        w['add'](pos, (3, m, 0), f"h prompt {w['sp_tr'][m]}")
    out = ['reset']
    close_at, close_line = None, 'h close - -'
    if teardown:
        close_at = len(events)
        if events and events[-1]['_type'] == 'OnEndTrace':
            close_at = len(events) - 1
            st = [x for x in events if x['_type'] == 'OnStartTrace' and x['trace_no'] == events[-1]['trace_no']]
            if st:
                close_line = f"h close {st[-1]['thread_no']} {'-' if st[-1]['task_no'] is None else st[-1]['task_no']}"
    for i, e in enumerate(events):
        for _, line in sorted(w['hints'].get(i, [])):
            out.append(line)
        if i == close_at:
            out.append(close_line)
        t = e['_type']
        n = e.get('trace_no')
        if t == 'OnStartTrace':
            out.append(f"e st {n} {e['thread_no']} {'-' if e['task_no'] is None else e['task_no']}")
        elif t == 'OnEndTrace':
            out.append(f'e et {n}')
        elif t == 'OnStartTraceCall':
            out.append(f"e sc {n} {e['trace_call_no']} {call_args(e)}")
        elif t == 'OnEndTraceCall':
            out.append(f"e ec {n} {e['trace_call_no']}")
        elif t == 'OnStartCmdloop':
            out.append(f"e sl {n} {e['trace_call_no']}")
        elif t == 'OnEndCmdloop':
            out.append(f"e el {n} {e['trace_call_no']}")
        elif t == 'OnStartPrompt':
            out.append(f"e sp {n} {e['trace_call_no']} {e['prompt_no']} {I('T' + e['prompt_text'])}")
        elif t == 'OnEndPrompt':
            out.append(f"e ep {n} {e['prompt_no']} {I(e['command']) if e['command'] else 0}")
        elif t == 'OnWriteStdout':
            out.append(f"e so {n} {I('W' + e['text'])}")
    if close_at == len(events):
        out.append(close_line)
    out.append('end')
    return out


def grammar_oracle(events: list[dict], run_no: int, complete: bool = True) -> list[str]:
    """C09's statement as a stack checker (independent of the Lean model)."""
    errs: list[str] = []
    st: dict = {}
    ended: set = set()
    seen: dict = {'TraceCall': set(), 'Prompt': set()}
    last: dict = {}
    trace_order: list = []
    for ev in events:
        n = ev['_type']
        t = ev.get('trace_no')
        if ev.get('run_no') != run_no:
            errs.append(f'{n} carries run number {ev.get("run_no")}, the run is {run_no}')
        if n == 'OnStartTrace':
            if t in st or t in ended:
                errs.append(f'trace {t} started twice')
            st[t] = []
            trace_order.append(t)
            continue
        if t not in st:
            if n == 'OnWriteStdout' and t is None:
                continue
            errs.append(f'{n} for trace {t} outside its start…end')
            continue
        s = st[t]
        if n == 'OnEndTrace':
            if s:
                errs.append(f'trace {t} ended with {s} still open')
            del st[t]
            ended.add(t)
            continue
        if n == 'OnWriteStdout':
            continue
        kind = n[2:].replace('Start', '').replace('End', '')
        keyname = {'TraceCall': 'trace_call_no', 'Cmdloop': 'trace_call_no', 'Prompt': 'prompt_no'}[kind]
        key = ev[keyname]
        if n.startswith('OnStart'):
            parent = {'TraceCall': None, 'Cmdloop': 'TraceCall', 'Prompt': 'Cmdloop'}[kind]
            top = s[-1][0] if s else None
            if top != parent:
                errs.append(f'{n} of trace {t} inside {top}, expected inside {parent}')
            if kind == 'Cmdloop' and s and s[-1][1] != key:
                errs.append(f'command loop of trace {t} carries trace-call number {key}, the open trace call is {s[-1][1]}')
            if kind in ('TraceCall', 'Prompt'):
                if key in seen[kind]:
                    errs.append(f'{kind} number {key} used twice in the run')
                seen[kind].add(key)
                if key <= last.get((t, kind), 0):
                    errs.append(f'{kind} numbers of trace {t} not increasing: {last.get((t, kind))} then {key}')
                last[(t, kind)] = key
            s.append((kind, key))
        else:
            if not s or s[-1] != (kind, key):
                errs.append(f'{n}({key}) of trace {t} does not match the open {s[-1] if s else None}')
            else:
                s.pop()
    if complete and st:
        errs.append(f'traces {sorted(st)} never ended')
    if len(set(trace_order)) != len(trace_order):
        errs.append(f'trace numbers not unique: {trace_order}')
    return errs


def _batch(specs: list[dict]) -> list[dict]:
    return inproc.run_batch(specs)


def run_specs(specs: list[dict], procs: int = 16, chunk: int = 12) -> list[dict]:
    """Run specs in fresh worker processes (each chunk in its own process: sys.settrace state does not leak)."""
    chunks = [specs[i:i + chunk] for i in range(0, len(specs), chunk)]
    out: list[dict] = []
    with mp.get_context('spawn').Pool(procs, maxtasksperchild=1) as pool:
        for i, res in enumerate(pool.imap(_batch, chunks)):
            out += res
            # a wedged batch returns fewer results than specs: mark the rest
            for s in chunks[i][len(res):]:
                out.append({'spec': s, 'harness_error': 'SKIPPED: an earlier program of the batch did not finish'})
    return out


POLICIES = [
    {'kind': 'all', 'command': 'step'}, {'kind': 'all', 'command': 'next'}, {'kind': 'all', 'command': 'continue'},
    {'kind': 'all', 'command': 'return'}, {'kind': 'all', 'command': 'until'},
]


def stress_specs(chk: common.Check, n: int) -> list[dict]:
    """several threads inside the trace machinery and the stdout hook at the same time, under a 1 µs thread-switch interval"""
    rng = chk.rng
    out = []
    for i in range(n):
        nt = rng.choice([3, 4, 6])
        src, owners = progs.stress(random.Random(rng.randrange(1 << 30)), nt, rng.choice([60, 150, 300]), rng.choice([20, 60]))
        pol = [{'kind': 'seq', 'commands': ['next', 'next'], 'then': 'continue'}, {'kind': 'all', 'command': 'continue'},
               {'kind': 'seq', 'commands': ['next'] * 12, 'then': 'continue'}][i % 3]
        out.append({'source': src, 'policy': pol, 'trace_threads': True, 'trace_modules': False, 'kind': 'stress', 'owners': owners,
                    'decoys': i % 2 == 0, 'run_no': 5, 'timeout': 90, 'switchinterval': 1e-6, 'want_reference': False, 'want_recorder': False})
    return out


def captured_oracle(t: dict) -> list[str]:
    """C13's statement on one traced run: what each thread/task wrote (ground truth: the writes that reached the real stdout,
    keyed by the writing thread/task) is what was reported for some trace, up to that entity's last newline, and nothing else"""
    per: dict = {}
    for k, s in t['writes']:
        per[k] = per.get(k, '') + s
    want = sorted(x[:x.rfind('\n') + 1] for x in per.values() if '\n' in x)
    cap: dict = {}
    bad_piece = []
    for e in t['events']:
        if e['_type'] == 'OnWriteStdout':
            cap[e['trace_no']] = cap.get(e['trace_no'], '') + e['text']
            if not e['text'].endswith('\n'):
                bad_piece.append(e['text'])
    got = sorted(v for v in cap.values() if v)
    msgs = []
    if bad_piece:
        msgs.append(f'a reported piece does not end at a line end: {bad_piece[0]!r}')
    if got != want:
        # first differing entity
        for a, b in zip(got, want):
            if a != b:
                k = next((i for i, (x, y) in enumerate(zip(a, b)) if x != y), min(len(a), len(b)))
                msgs.append(f'reported text differs from what the thread/task wrote, from position {k}: reported …{a[max(0, k - 20):k + 30]!r}, written …{b[max(0, k - 20):k + 30]!r}')
                break
        else:
            msgs.append(f'{len(got)} traces reported output, {len(want)} threads/tasks wrote complete lines')
    return msgs


def commands_oracle(t: dict) -> list[str]:
    """C07's statement on one traced run: the command recorded when a prompt closes is the one that was addressed to it
    (`sent` holds the genuine answers; decoys are recognisable by their text), no decoy is ever executed (its output would show
    up in the text of the next prompt), and no prompt is closed twice"""
    genuine: dict = {}
    for tn, pn, c in t.get('sent', []):
        genuine.setdefault((tn, pn), []).append(c)
    msgs = []
    closed: set = set()
    for e in t['events']:
        if e['_type'] == 'OnEndPrompt':
            k = (e['trace_no'], e['prompt_no'])
            if k in closed:
                msgs.append(f'prompt {k} closed twice')
            closed.add(k)
            if e['command'] and e['command'] not in genuine.get(k, []):
                msgs.append(f"prompt {k} closed with {e['command']!r}; addressed to it: {genuine.get(k)}")
        if e['_type'] == 'OnStartPrompt' and 'DECOY' in (e.get('prompt_text') or ''):
            msgs.append(f"a decoy command was executed: its output appears in the text of prompt ({e['trace_no']}, {e['prompt_no']})")
    return msgs


def gen_specs(chk: common.Check, nseq: int, nconc: int, with_modules: bool = True) -> list[dict]:
    rng = chk.rng
    specs: list[dict] = []
    for i in range(nseq):
        src = progs.sequential(random.Random(rng.randrange(1 << 30)), rng.choice([4, 6, 8, 12, 16]))
        for j, pol in enumerate(POLICIES + [{'kind': 'random', 'seed': i, 'choices': ['step', 'next', 'return', 'until', 'continue', 'step', 'next']}]):
            if j >= 3 and (i + j) % 3:
                continue
            specs.append({'source': src, 'policy': pol, 'trace_threads': True, 'trace_modules': False, 'kind': 'seq',
                          'decoys': (i + j) % 4 == 0, 'nonresuming_first': (i + j) % 5 == 0, 'run_no': 1 + i % 3})
        if with_modules and i % 10 == 0:
            specs.append({'source': src, 'policy': {'kind': 'all', 'command': 'next'}, 'trace_threads': True, 'trace_modules': True,
                          'kind': 'seq-modules', 'run_no': 2})
    for i in range(nconc):
        nt, na = rng.randint(0, 3), rng.randint(0, 3)
        if nt + na == 0:
            nt = 1
        src, owners = progs.concurrent(random.Random(rng.randrange(1 << 30)), nt, na, nested=rng.random() < 0.3, pool=(i % 3 == 2),
                                       join=not (i % 5 == 4 and nt > 0))
        pol = [{'kind': 'all', 'command': 'next'}, {'kind': 'all', 'command': 'step'}, {'kind': 'all', 'command': 'continue'},
               {'kind': 'random', 'seed': i, 'choices': ['next', 'step', 'return']}][i % 4]
        for tt in ([True, False] if i % 4 == 0 else [True]):
            specs.append({'source': src, 'policy': pol, 'trace_threads': tt, 'trace_modules': False, 'kind': 'conc', 'owners': owners,
                          'decoys': i % 3 == 0, 'run_no': 4, 'timeout': 40})
    for i in range(max(1, nconc // 10)):
        src, owners = progs.sequential_tasks(random.Random(rng.randrange(1 << 30)), rng.choice([6, 8, 10]))
        for pol in ({'kind': 'all', 'command': 'next'}, {'kind': 'all', 'command': 'continue'}):
            specs.append({'source': src, 'policy': pol, 'trace_threads': True, 'trace_modules': i % 2 == 1, 'kind': 'sequential-tasks', 'owners': owners,
                          'decoys': False, 'run_no': 6, 'timeout': 40})
    src, owners = progs.cancelled_tasks(random.Random(rng.randrange(1 << 30)))
    for pol in ({'kind': 'all', 'command': 'next'}, {'kind': 'all', 'command': 'continue'}, {'kind': 'all', 'command': 'step'}):
        specs.append({'source': src, 'policy': pol, 'trace_threads': True, 'trace_modules': False, 'kind': 'cancelled-tasks', 'owners': owners,
                      'decoys': False, 'run_no': 7, 'timeout': 40})
    return specs
