"""Shared machinery of the trace-pipeline properties (C04, C05, C06, C09): run generated programs through the
child's real trace machinery in-process (worker processes), encode event streams for the Lean driver."""
from __future__ import annotations

import multiprocessing as mp
import random
from typing import Any, Optional

from .. import common, inproc, progs

EVENTS = ['line', 'call', 'return', 'exception']


class Intern:
    def __init__(self) -> None:
        self.m: dict = {'': 0}

    def __call__(self, s: Any) -> int:
        if s not in self.m:
            self.m[s] = len(self.m)
        return self.m[s]


def encode(events: list[dict]) -> list[str]:
    """event dicts (child-side order) → protocol lines of `nlvmodel trace`"""
    I = Intern()
    out = ['reset']
    for e in events:
        t = e['_type']
        n = e.get('trace_no')
        if t == 'OnStartTrace':
            out.append(f"e st {n} {e['thread_no']} {'-' if e['task_no'] is None else e['task_no']}")
        elif t == 'OnEndTrace':
            out.append(f'e et {n}')
        elif t == 'OnStartTraceCall':
            out.append(f"e sc {n} {e['trace_call_no']} {I(e['file_name'])} {e['line_no']} {e.get('frame_object_id', 0) % 100000} {EVENTS.index(e['event']) if e['event'] in EVENTS else 9}")
        elif t == 'OnEndTraceCall':
            out.append(f"e ec {n} {e['trace_call_no']}")
        elif t == 'OnStartCmdloop':
            out.append(f"e sl {n} {e['trace_call_no']}")
        elif t == 'OnEndCmdloop':
            out.append(f"e el {n} {e['trace_call_no']}")
        elif t == 'OnStartPrompt':
            out.append(f"e sp {n} {e['trace_call_no']} {e['prompt_no']} {I('T' + e['prompt_text'])}")
        elif t == 'OnEndPrompt':
            out.append(f"e ep {n} {e['prompt_no']} {I(e['command']) if e['command'] else 0}")
        elif t == 'OnWriteStdout':
            out.append(f"e so {n} {I('W' + e['text'])}")
    out.append('end')
    return out


def grammar_oracle(events: list[dict], run_no: int, complete: bool = True) -> list[str]:
    """C09's statement as a stack checker (independent of the Lean model)."""
    errs: list[str] = []
    st: dict = {}
    ended: set = set()
    seen: dict = {'TraceCall': set(), 'Prompt': set()}
    last: dict = {}
    trace_order: list = []
    for ev in events:
        n = ev['_type']
        t = ev.get('trace_no')
        if ev.get('run_no') != run_no:
            errs.append(f'{n} carries run number {ev.get("run_no")}, the run is {run_no}')
        if n == 'OnStartTrace':
            if t in st or t in ended:
                errs.append(f'trace {t} started twice')
            st[t] = []
            trace_order.append(t)
            continue
        if t not in st:
            if n == 'OnWriteStdout' and t is None:
                continue
            errs.append(f'{n} for trace {t} outside its start…end')
            continue
        s = st[t]
        if n == 'OnEndTrace':
            if s:
                errs.append(f'trace {t} ended with {s} still open')
            del st[t]
            ended.add(t)
            continue
        if n == 'OnWriteStdout':
            continue
        kind = n[2:].replace('Start', '').replace('End', '')
        keyname = {'TraceCall': 'trace_call_no', 'Cmdloop': 'trace_call_no', 'Prompt': 'prompt_no'}[kind]
        key = ev[keyname]
        if n.startswith('OnStart'):
            parent = {'TraceCall': None, 'Cmdloop': 'TraceCall', 'Prompt': 'Cmdloop'}[kind]
            top = s[-1][0] if s else None
            if top != parent:
                errs.append(f'{n} of trace {t} inside {top}, expected inside {parent}')
            if kind == 'Cmdloop' and s and s[-1][1] != key:
                errs.append(f'command loop of trace {t} carries trace-call number {key}, the open trace call is {s[-1][1]}')
            if kind in ('TraceCall', 'Prompt'):
                if key in seen[kind]:
                    errs.append(f'{kind} number {key} used twice in the run')
                seen[kind].add(key)
                if key <= last.get((t, kind), 0):
                    errs.append(f'{kind} numbers of trace {t} not increasing: {last.get((t, kind))} then {key}')
                last[(t, kind)] = key
            s.append((kind, key))
        else:
            if not s or s[-1] != (kind, key):
                errs.append(f'{n}({key}) of trace {t} does not match the open {s[-1] if s else None}')
            else:
                s.pop()
    if complete and st:
        errs.append(f'traces {sorted(st)} never ended')
    if trace_order != sorted(trace_order) or len(set(trace_order)) != len(trace_order):
        errs.append(f'trace numbers not unique/increasing in start order: {trace_order}')
    return errs


def _batch(specs: list[dict]) -> list[dict]:
    return inproc.run_batch(specs)


def run_specs(specs: list[dict], procs: int = 16, chunk: int = 12) -> list[dict]:
    """Run specs in fresh worker processes (each chunk in its own process: sys.settrace state does not leak)."""
    chunks = [specs[i:i + chunk] for i in range(0, len(specs), chunk)]
    out: list[dict] = []
    with mp.get_context('spawn').Pool(procs, maxtasksperchild=1) as pool:
        for i, res in enumerate(pool.imap(_batch, chunks)):
            out += res
            # a wedged batch returns fewer results than specs: mark the rest
            for s in chunks[i][len(res):]:
                out.append({'spec': s, 'harness_error': 'SKIPPED: an earlier program of the batch did not finish'})
    return out


POLICIES = [
    {'kind': 'all', 'command': 'step'}, {'kind': 'all', 'command': 'next'}, {'kind': 'all', 'command': 'continue'},
    {'kind': 'all', 'command': 'return'}, {'kind': 'all', 'command': 'until'},
]


def gen_specs(chk: common.Check, nseq: int, nconc: int, with_modules: bool = True) -> list[dict]:
    rng = chk.rng
    specs: list[dict] = []
    for i in range(nseq):
        src = progs.sequential(random.Random(rng.randrange(1 << 30)), rng.choice([4, 6, 8, 12, 16]))
        for j, pol in enumerate(POLICIES + [{'kind': 'random', 'seed': i, 'choices': ['step', 'next', 'return', 'until', 'continue', 'step', 'next']}]):
            if j >= 3 and (i + j) % 3:
                continue
            specs.append({'source': src, 'policy': pol, 'trace_threads': True, 'trace_modules': False, 'kind': 'seq',
                          'decoys': (i + j) % 4 == 0, 'nonresuming_first': (i + j) % 5 == 0, 'run_no': 1 + i % 3})
        if with_modules and i % 10 == 0:
            specs.append({'source': src, 'policy': {'kind': 'all', 'command': 'next'}, 'trace_threads': True, 'trace_modules': True,
                          'kind': 'seq-modules', 'run_no': 2})
    for i in range(nconc):
        nt, na = rng.randint(0, 3), rng.randint(0, 3)
        if nt + na == 0:
            nt = 1
        src, owners = progs.concurrent(random.Random(rng.randrange(1 << 30)), nt, na, nested=rng.random() < 0.3, pool=(i % 3 == 2))
        pol = [{'kind': 'all', 'command': 'next'}, {'kind': 'all', 'command': 'step'}, {'kind': 'all', 'command': 'continue'},
               {'kind': 'random', 'seed': i, 'choices': ['next', 'step', 'return']}][i % 4]
        for tt in ([True, False] if i % 4 == 0 else [True]):
            specs.append({'source': src, 'policy': pol, 'trace_threads': tt, 'trace_modules': False, 'kind': 'conc', 'owners': owners,
                          'decoys': i % 3 == 0, 'run_no': 4, 'timeout': 40})
    return specs
