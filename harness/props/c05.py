"""C05 — prompts appear exactly at the executed lines of the user's script, in order.  Model D2 (`NLV.Model.Bdb`).

Tie: every generated program is run three ways in-process (`harness.inproc`): untraced, under an independent
`sys.settrace` recorder (the interpreter-level event stream per thread/task, with frame identities, `f_back`, generator
flags and exception kinds), and through the child's real trace machinery (`nextline.spawned.run`) with a responder
applying a command policy.  For each trace, the recorder stream of the corresponding entity and the commands that were
actually given are fed to the Lean model (`nlvmodel bdb`: frame filter over the GENERATED hook call order + CPython
3.12.1 bdb/pdb stop logic); its predicted prompt list must equal the real one (location, event, and the function Pdb
shows as current frame).  Independently, an oracle written from the property statement is evaluated on the same data.
The frame filter alone is compared with the real pluggy hook on synthetic module/function names.
"""
from __future__ import annotations

import json
import random
import threading
from types import SimpleNamespace
from typing import Any, Optional

from .. import common
from . import _bdb, _trace

FINDING_SIG = 'task_next_at_callee_exception'


# ---------------------------------------------------------------------------
# the oracle (from the property statement; does not use the Lean model)
# ---------------------------------------------------------------------------

def oracle(sp: dict, stream: list, key: str, main_thread: str, real: list, script: str, skip: list, trace: int = 1) -> tuple[list[str], Optional[str]]:
    """→ (messages, finding signature if the failure has the shape of a known finding)"""
    msgs: list[str] = []
    sig: Optional[str] = None
    tm = sp['trace_modules']
    acc = _bdb.accepted_frames(stream, script, tm, skip)
    table = _bdb.frame_table(stream)
    evs = [r for r in stream if r[0] == 'e']
    acc_evs = [(r[2], r[3]) for r in evs if r[1] in acc]
    prompts = [(p[0], p[1]) for p in real]
    pol = sp['policy']
    if pol['kind'] == 'by_trace':
        pol = pol['main'] if trace == 1 else pol['others']
    # -- always
    if not _bdb.is_subsequence(prompts, acc_evs):
        msgs.append('a prompt is not at an event this thread/task executed in a frame where prompts are allowed (in order)')
    for (line, ev, fname, shown) in real:
        if not tm and fname != '<string>':
            msgs.append(f'module tracing is off but there is a prompt in {fname}:{line}')
            break
    # the function of the event's frame: every recorded event at that (line, event) is in a lambda ⇒ the prompt is in a lambda
    for (line, ev, fname, shown) in real:
        fns = {table[r[1]][1] for r in evs if (r[2], r[3]) == (line, ev) and r[1] in table}
        if fns and fns == {'<lambda>'}:
            msgs.append(f'prompt in a lambda at line {line}')
            break
    if not sp['trace_threads'] and key.split('/')[0] != main_thread:
        msgs.append(f'thread tracing is off but thread {key} is prompted')
    if pol['kind'] != 'all':
        return msgs, sig
    cmd = pol['command']
    if cmd == 'step':
        first_call = next((i for i, r in enumerate(evs) if r[1] in acc), None)
        expect = []
        for i, r in enumerate(evs):
            if r[1] not in acc:
                continue
            if i == first_call and r[3] == 'call':
                continue            # the entity's entry: the debugger notes the bottom frame, the first stop is the first line
            if r[3] == 'exception' and r[4] == 1 and acc[r[1]][2]:
                continue            # the interpreter's internal StopIteration inside a generator/coroutine: not an executed location
            expect.append((r[2], r[3]))
        if [p for p in prompts if p[1] == 'line'] != [e for e in expect if e[1] == 'line']:
            msgs.append('step: the line prompts are not exactly the executed lines, in order')
        elif prompts != expect:
            msgs.append('step: the prompts are not exactly the call/line/return/exception events of the accepted frames')
    elif cmd == 'next':
        bottom = next((r[1] for r in evs if r[1] in acc), None)
        if bottom is not None:
            last = max(i for i, r in enumerate(evs) if r[1] == bottom)
            own = [(r[2], r[3]) for r in evs[:last + 1] if r[1] == bottom]
            upto = [(r[2], r[3]) for r in evs[:last + 1] if r[1] in acc]
            inside = [p for p in prompts]
            if not _bdb.is_subsequence(inside, own) and _bdb.is_subsequence(inside, upto):
                msgs.append('next: a prompt inside a call made by the frame being stepped')
            lines_own = [e for e in own if e[1] == 'line']
            lines_p = [p for p in prompts if p[1] == 'line']
            if lines_p != lines_own:
                msgs.append(f'next: the frame being stepped executed {len(lines_own)} lines, {len(lines_p)} were prompted')
                # shape of finding F-D2: a task; the prompts stop right after an exception event whose traceback ends in another frame
                if '/' in key and real and real[-1][1] == 'exception' and lines_p == lines_own[:len(lines_p)]:
                    n = 0
                    for r in evs:
                        if r[1] == bottom and (r[2], r[3]) == prompts[n]:
                            n += 1
                            if n == len(prompts):
                                if r[3] == 'exception' and r[5] is not None:
                                    sig = FINDING_SIG
                                break
    elif cmd == 'continue':
        first_line = next(((r[2], r[3]) for r in evs if r[1] in acc and r[3] == 'line'), None)
        if prompts != ([first_line] if first_line else []):
            msgs.append(f'continue: expected one prompt at the first line {first_line}, got {prompts[:4]}')
    return msgs, sig


# ---------------------------------------------------------------------------
# the filter alone against the real pluggy hook
# ---------------------------------------------------------------------------

def filter_differential(chk: common.Check, script: str) -> tuple[list[str], int]:
    import queue
    from nextline.spawned.plugin import Hook
    from nextline.spawned.types import RunArg
    rng = random.Random(chk.seed + 5)
    import sys as _sys
    names = sorted(set(list(_sys.modules)[:400]))
    pats = _bdb.skip_list()
    synthetic = [script, script + 'x', 'x' + script, '__main__', 'nextline', 'nextline.spawned.call', 'nextline.spawned.callx', 'nextline.spawned',
                 'contextlib', 'contextlib.x', None]
    for p in pats:
        base = p[:-2] if p.endswith('.*') else p
        synthetic += [base, base + '.', base + '.sub', base + '.sub.deep', base + 'x', 'x' + base, base[:-1]]
    pool = [m for m in names + synthetic if m is None or (m and not any(c.isspace() for c in m))]
    funcs = ['<lambda>', 'f', '<module>', '<listcomp>', 'lambda', '<lambda>x']
    bad: list[str] = []
    n = 0
    lines: list[str] = []
    expect: list[tuple] = []

    def fake(mod: Any, fn: str) -> Any:
        g = {} if mod is None else {'__name__': mod}
        return SimpleNamespace(f_globals=g, f_code=SimpleNamespace(co_name=fn))
    for tm in (False, True):
        nseq = 60 if chk.tier == 'quick' else 600
        for s in range(nseq):
            hook = Hook(RunArg(run_no=1, statement='', filename='<string>', trace_threads=True, trace_modules=tm), queue.Queue(), queue.Queue())
            filer = next((p for _, p in hook.list_name_plugin() if type(p).__name__ == 'FilerByModule'), None)
            if filer is not None:
                filer._entering_thread = threading.current_thread()     # what its `context()` does
            lines.append(f"reset {1 if tm else 0} {script}")
            expect.append(None)
            lines.append('ent 0 1 continue')
            expect.append(None)
            for k in range(40):
                mod = rng.choice(pool) if rng.random() < 0.8 else rng.choice(synthetic)
                fn = rng.choice(funcs) if rng.random() < 0.4 else 'f'
                if filer is not None and rng.random() < 0.15:
                    filer._add((fake(mod, fn), 'line', None))            # what `on_cmdloop` does
                    lines.append(f'cml {_bdb.tok(mod)}')
                    expect.append(None)
                    continue
                res = hook.hook.filter(trace_args=(fake(mod, fn), 'call', None))
                lines.append(f'flt {_bdb.tok(mod)} {_bdb.tok(fn)}')
                expect.append(('skip' if res else 'accept', tm, mod, fn))
                n += 1
    mo = common.model_batch('bdb', lines)
    for line, exp, got in zip(lines, expect, mo):
        if exp is None:
            if got != 'ok':
                bad.append(f'{line!r} → {got}')
        elif got != exp[0]:
            bad.append(f'trace_modules={exp[1]} module={exp[2]!r} function={exp[3]!r}: hook says {exp[0]}, model says {got}')
        else:
            chk.cov.count('filter', f"{'on' if exp[1] else 'off'}:{got}")
    return bad, n


# ---------------------------------------------------------------------------
# model predictions
# ---------------------------------------------------------------------------

def predict(results: list[dict], script: str, skip: list) -> list[dict]:
    """one record per (result, trace): real prompts, predicted prompts, the dialogue with the driver"""
    lines: list[str] = []
    plan: list[dict] = []
    for ri, r in enumerate(results):
        if 'harness_error' in r or 'recorder' not in r:
            continue
        sp = r['spec']
        rec = r['recorder']
        prompts, cmds, info, order = _bdb.real_prompts(r['traced']['events'])
        if not rec['order']:
            continue
        main_thread = rec['order'][0].split('/')[0]
        mp = _bdb.map_traces(rec, prompts, order, script, sp['trace_modules'], skip)
        lines.append(f"reset {1 if sp['trace_modules'] else 0} {script}")
        pol = sp['policy']
        dflt = pol['command'] if pol['kind'] == 'all' else 'continue'
        for t in order:
            k = mp.get(t)
            item = {'ri': ri, 'trace': t, 'key': k, 'real': prompts[t], 'cmds': cmds.get(t, []), 'info': info[t], 'main_thread': main_thread}
            if k is not None:
                bad_cmd = [c for c in item['cmds'] if c not in _bdb.RESUMING]
                assert not bad_cmd, bad_cmd
                el = _bdb.entity_lines(rec['stream'][k], rec['order'].index(k), k.split('/')[0] == main_thread, item['cmds'], dflt)
                item['span'] = (len(lines), len(el))
                lines += el
            plan.append(item)
    mo = common.model_batch('bdb', lines) if lines else []
    for item in plan:
        if item['key'] is None:
            item['pred'] = None
            continue
        a, n = item['span']
        req, rep = lines[a:a + n], mo[a:a + n]
        item['dialogue'] = list(zip(req, rep))
        if 'bad-op' in rep:
            item['pred'] = None
            item['driver_error'] = req[rep.index('bad-op')]
            continue
        stream = results[item['ri']]['recorder']['stream'][item['key']]
        table = _bdb.frame_table(stream)
        pred = []
        for q, p in zip(req, rep):
            if p.startswith('P '):
                _, line, kind, cur = p.split()
                pred.append((None if line == '-' else int(line), kind, table.get(int(cur), (None, '?', 0))[1]))
        assert [(a, b) for a, b, _ in pred] == _bdb.parse_prompts(rep[-1]), 'driver replies inconsistent'
        item['pred'] = pred
    return plan


def run(chk: common.Check) -> None:
    chk.cov.rule = ('programs: (X) ALL sequences of ≤3 (quick; step/next/continue/mix) / ≤4 (thorough; all five commands + mix) blocks of a reduced grammar (call, lambda, generator loop, caught exception from a '
                    'callee, if/else, sum over a generator, lambda calling a function, while, a loop around `except … as` that leaves the final return without a line number); (S) random programs of the shared generator; (T) templates '
                    '(yield from, close, context managers, library callers without a trace function, finally, uncaught exceptions); (C) threads and asyncio '
                    'tasks with thread tracing on and off; (A) tasks with exceptions raised in callees; (M) module tracing on, descending into the '
                    'standard library; (O) threads the script does not join, calling functions of the script after the script\'s last statement.  Policies: all-step, all-next, all-continue, all-return, all-until, seeded random mixes.  For every trace the Lean '
                    'model (filter over the generated hook order + bdb/pdb stop logic), fed with the recorder stream of that entity and the commands '
                    'given, must predict exactly the real prompts (line, event, function of Pdb\'s current frame); plus the oracle from the '
                    'statement; plus the filter alone against the real pluggy hook on synthetic names.  Non-trivial: the trace has ≥ 2 prompts '
                    'or the policy is all-continue; distinct = distinct (program, policy, options, trace).')
    chk.assumptions += ['the interpreter delivers the same call/line/return/exception events to the recorder and to nextline\'s trace function '
                        '(deterministic programs; the recorder traces every frame of the script, the model selects those with an f_trace)',
                        'no breakpoints, no `skip` patterns, no `quit`, no frame-changing (up/down) or `jump` commands',
                        'fnmatch patterns of the skip list contain only literals, `*` and `?` (checked in Lean for the generated list)']
    script = _bdb.script_module()
    skip = _bdb.skip_list()
    specs = _bdb.gen_specs(chk.rng, chk.tier)
    # the same programs again with debugger start-up files (.pdbrc) in the child's home and working directory: where the debugger prompts is
    # decided by the answers to the prompts, not by what a user keeps there for the command-line pdb
    rcs = ['continue\n', '# my settings\nalias pl p locals()\nstep\n', 'next\nnext\n', 'import os\nreturn\n', 'alias q quit\n']
    extra = []
    for k, sp in enumerate(specs[::max(1, len(specs) // (10 if chk.tier == 'quick' else 60))]):
        extra.append(dict(sp, pdbrc=rcs[k % len(rcs)]))
    specs = specs + extra
    chk.cov.count('kinds', 'with-pdbrc-files', len(extra))
    # threads the script does not join, calling functions of the script after the script's end (spread over the batches: each of
    # these programs takes its pause twice, in the recorder's run and in the traced one)
    own = _bdb.outliving_specs(random.Random(chk.seed + 505), chk.tier)
    gap = max(1, len(specs) // (len(own) + 1))
    for k, sp in enumerate(own):
        specs.insert(min(len(specs), (k + 1) * gap + k), sp)
    chk.cov.count('kinds', _bdb.OUTLIVING, len(own))
    results = _trace.run_specs(specs, chunk=24)
    oracle_fail: list = []
    known: list = []
    model_err = None
    disagreements: list = []
    unmapped: list = []
    plan: list = []
    try:
        plan = predict(results, script, skip)
    except Exception as e:   # noqa
        model_err = f'{type(e).__name__}: {e}'
    for r in results:
        sp = r['spec']
        if 'harness_error' in r:
            if not r['harness_error'].startswith('SKIPPED'):
                oracle_fail.append((sp, None, [f'the traced run did not complete: {r["harness_error"][:300]}'], None))
            continue
        if r['traced'].get('error'):
            oracle_fail.append((sp, None, [f'spawned.run raised: {r["traced"]["error"]}'], None))
        chk.cov.count('programs', sp['kind'])
        chk.cov.count('policy', sp['policy'].get('command', 'mix' if sp['policy']['kind'] == 'random' else sp['policy']['kind']))
        chk.cov.count('options', f"threads={'on' if sp['trace_threads'] else 'off'},modules={'on' if sp['trace_modules'] else 'off'}")
    # every thread/task that executed lines of the script has a trace (module tracing off; thread tracing permitting)
    by_result: dict = {}
    for item in plan:
        by_result.setdefault(item['ri'], []).append(item)
    for ri, r in enumerate(results):
        if 'harness_error' in r or 'recorder' not in r or r['spec']['trace_modules']:
            continue
        sp = r['spec']
        rec = r['recorder']
        if not rec['order']:
            continue
        main_thread = rec['order'][0].split('/')[0]
        mapped = {i['key'] for i in by_result.get(ri, [])}
        for k in rec['order']:
            if _bdb.first_location(rec['stream'][k], _bdb.accepted_frames(rec['stream'][k], script, False, skip)) is None:
                continue
            if (sp['trace_threads'] or k.split('/')[0] == main_thread) and k not in mapped:
                oracle_fail.append((sp, None, [f'{k} executed lines of the script but was never prompted (it has no trace)'], None))
    nagree = 0
    for item in plan:
        r = results[item['ri']]
        sp = r['spec']
        real = item['real']
        key = item['key']
        chk.cov.case((sp['source'], repr(sp['policy']), sp['trace_threads'], sp['trace_modules'], item['trace']),
                     trivial=len(real) < 2 and sp['policy'].get('command') != 'continue')
        chk.cov.count('entities', 'task' if item['info'][1] is not None else ('main thread' if item['info'][0] == 1 else 'other thread'))
        chk.cov.count('prompts', 'total', len(real))
        for p in real:
            chk.cov.count('prompt_events', p[1])
            if p[0] is None:
                chk.cov.count('prompt_events', 'at a frame without a line number')
        if key is None:
            unmapped.append((sp, item))
            continue
        if item.get('driver_error'):
            model_err = f'driver rejected {item["driver_error"]!r}'
            continue
        stream = r['recorder']['stream'][key]
        if not sp['trace_threads'] and item['info'][0] != 1:
            oracle_fail.append((sp, item, [f'thread tracing is off but trace {item["trace"]} belongs to thread number {item["info"][0]}'], None))
        msgs, sig = oracle(sp, stream, key, item['main_thread'], real, script, skip, item['trace'])
        if sp['kind'] == _bdb.OUTLIVING and key.split('/')[0] != item['main_thread']:
            chk.cov.count('kinds', 'outliving-thread-compared')
            pol = sp['policy']['others'] if sp['policy']['kind'] == 'by_trace' else sp['policy']
            miss = _bdb.unprompted_lines(stream, real, script, skip) if msgs and pol == {'kind': 'all', 'command': 'step'} else []
            if miss:
                msgs.insert(0, f'a thread the script starts and does not join ({key}), which calls functions of the script after the script\'s last '
                               f'statement, executed lines {miss[:12]} of the script without being prompted there ({msgs[0]})')
        if msgs:
            (known if sig else oracle_fail).append((sp, item, msgs, sig))
        realp = [(p[0], p[1], p[3]) for p in real]
        if item['pred'] == realp:
            nagree += 1
        else:
            disagreements.append((sp, item))
        for q, rep in item.get('dialogue', []):
            if rep.startswith('- patched'):
                chk.cov.count('model_branches', 'event through a patched f_trace (refused command loop)')
            elif rep.startswith('- no-f_trace'):
                chk.cov.count('model_branches', 'event of a frame without f_trace')
            elif rep.startswith('- untraced'):
                chk.cov.count('model_branches', 'call filtered or dispatch_call returned None')
    chk.cov.traces_validated = nagree
    chk.cov.disagreements_checked = len(disagreements)
    chk.cov.extra['entities_compared'] = nagree + len(disagreements)
    chk.cov.extra['agreement'] = f'{nagree}/{nagree + len(disagreements)}'
    chk.cov.extra['unmapped_traces'] = len(unmapped)
    # how often Pdb's current frame is not the event's frame (tasks after their first suspension, exception from a callee)
    ncur = 0
    for item in plan:
        if item.get('pred'):
            stream = results[item['ri']]['recorder']['stream'][item['key']]
            table = _bdb.frame_table(stream)
            for q, rep in item['dialogue']:
                if rep.startswith('P '):
                    if int(rep.split()[3]) != int(q.split()[1]):
                        ncur += 1
    chk.cov.extra['prompts_with_dead_current_frame'] = ncur
    # the filter alone
    fbad: list[str] = []
    try:
        fbad, nf = filter_differential(chk, script)
        chk.cov.extra['filter_calls_compared'] = nf
    except Exception as e:   # noqa
        model_err = model_err or f'filter differential: {type(e).__name__}: {e}'
    ok = next((i for i in plan if i.get('pred') and len(i['pred']) > 4), None)
    if ok:
        sp = results[ok['ri']]['spec']
        chk.cov.sample({'program': sp['source'], 'policy': sp['policy'], 'entity': ok['key'], 'commands': ok['cmds'][:12],
                        'predicted = real prompts': [list(p) for p in ok['pred'][:12]], 'dialogue': [f'{a} => {b}' for a, b in ok['dialogue'][:14]]})
    # -- report
    for sp, item, msgs, sig in oracle_fail[:5]:
        chk.violation(f'C05 oracle: {msgs[0]}', {'spec': sp, 'trace': item and item['trace'], 'entity': item and item['key'],
                                                 'oracle_messages': msgs[:10], 'prompts': item and item['real'][:80], 'commands': item and item['cmds'][:80]})
    if known:
        sp, item, msgs, sig = min(known, key=lambda k: len(k[0]['source']))
        chk.cov.extra['known_finding_cases'] = len(known)
        chk.violation(f'C05 oracle ({sig}): {msgs[-1]}; in a task, `next` at an exception event whose traceback ends in a callee selects that dead '
                      'frame as the frame to step in, and the task is never prompted again',
                      {'spec': sp, 'trace': item['trace'], 'entity': item['key'], 'oracle_messages': msgs, 'prompts': item['real'], 'commands': item['cmds']},
                      signature=sig)
    broken = common.proof_broken(chk)
    if model_err:
        broken.append(f'model driver unusable: {model_err}')
    if unmapped:
        sp, item = unmapped[0]
        broken.append(f'{len(unmapped)} traces have no counterpart among the recorder\'s entities (first prompt {item["real"][:1]})')
    if fbad:
        broken.append(f'correspondence D2 (filter) broken: {len(fbad)} filter decisions differ; e.g. {fbad[0]}')
    if disagreements:
        sp, item = min(disagreements, key=lambda d: (len(d[0]['source']), len(d[1]['real'])))
        pred = item['pred'] or []
        realp = [(p[0], p[1], p[3]) for p in item['real']]
        i = 0
        while i < len(pred) and i < len(realp) and pred[i] == realp[i]:
            i += 1
        broken.append(f'correspondence D2 broken: {len(disagreements)} of {nagree + len(disagreements)} prompt lists differ from the model\'s; e.g. '
                      f'policy {sp["policy"]} prompt #{i}: model {pred[i:i + 1]}, implementation {realp[i:i + 1]}')
    if broken and not oracle_fail:
        d = None
        if disagreements:
            sp, item = min(disagreements, key=lambda d: (len(d[0]['source']), len(d[1]['real'])))
            d = {'spec': sp, 'trace': item['trace'], 'entity': item['key'], 'model': item['pred'], 'implementation': item['real'],
                 'commands': item['cmds'], 'dialogue': [f'{a} => {b}' for a, b in item.get('dialogue', [])][:400]}
        chk.violation('C05: ' + ' | '.join(broken[:3]), {'no_longer_checks': broken, 'smallest_disagreement': d}, no_input=True)


def replay(chk: common.Check, path: str) -> int:
    """re-run the spec of a replay file and print model / implementation / oracle"""
    rp = json.load(open(path))['replay']
    sp = rp.get('spec') or (rp.get('smallest_disagreement') or {}).get('spec')
    if not sp:
        print('nothing to replay in', path)
        return 2
    script = _bdb.script_module()
    skip = _bdb.skip_list()
    results = _trace.run_specs([sp], procs=1)
    plan = predict(results, script, skip)
    rc = 0
    for item in plan:
        realp = [(p[0], p[1], p[3]) for p in item['real']]
        msgs, sig = ([], None) if item['key'] is None else oracle(sp, results[0]['recorder']['stream'][item['key']], item['key'], item['main_thread'],
                                                                   item['real'], script, skip, item['trace'])
        print(f"trace {item['trace']} entity {item['key']}: model == implementation: {item['pred'] == realp}; oracle: {msgs or 'ok'} {sig or ''}")
        print('  implementation', realp)
        print('  model         ', item['pred'])
        if item['pred'] != realp or msgs:
            rc = 1
    return rc
