"""C19 — async-iterator helpers.  Model J (`NLV.Model.Aio`), theorems `NLV.Props.C19`.

Tie: the real `merge_aiters` / `agen_with_wait` / `to_aiter` run under the permuting event loop with
instrumented sources; the exact linearised label sequence (source completions, consumer calls, items
received) must be accepted by the Lean LTS (trace acceptance with τ-closure) and end in a terminal state.
Oracle: per-source projections, totals, termination, surfaced exception.
"""
from __future__ import annotations

import asyncio
import multiprocessing as mp
import random
from typing import Any, Optional

from .. import common, loop as ctl

ctl.CtlLoop.max_steps = 20_000   # the largest generated scenario needs < 2,000 scheduler steps


class Src:
    """Async iterator whose `__anext__` takes `pauses[k]` extra scheduler steps and logs its completion."""

    def __init__(self, i: Any, items: list, pauses: list, log: list, label: str = 'complete'):
        self.i, self.items, self.pauses, self.log, self.k, self.label = i, list(items), list(pauses), log, 0, label

    def __aiter__(self) -> 'Src':
        return self

    async def __anext__(self) -> Any:
        p = self.pauses[self.k % len(self.pauses)] if self.pauses else 0
        for _ in range(p):
            await asyncio.sleep(0)
        k = self.k
        self.k += 1
        self.log.append(f'{self.label} {self.i}' if self.i is not None else self.label)
        if k >= len(self.items):
            raise StopAsyncIteration
        return self.items[k]


def merge_case(sources: list[list[int]], pauses: list[list[int]], cpause: list[int], chooser: Any) -> dict:
    from nextline.utils.aio import merge_aiters
    log: list[str] = []
    got: list[tuple[int, int]] = []

    async def main() -> None:
        srcs = [Src(i, s, p, log) for i, (s, p) in enumerate(zip(sources, pauses))]
        agen = merge_aiters(*srcs)
        first = True
        n = 0
        while True:
            log.append('start' if first else 'next')
            first = False
            try:
                i, x = await agen.__anext__()
            except StopAsyncIteration:
                log.append('stopiter')
                break
            log.append(f'recv {i} {x}')
            got.append((i, x))
            for _ in range(cpause[n % len(cpause)] if cpause else 0):
                await asyncio.sleep(0)
            n += 1

    err = None
    try:
        ctl.run(lambda: asyncio.wait_for(main(), timeout=30), chooser)
    except (Exception, ctl.StepBudgetExceeded) as e:  # noqa
        err = f'{type(e).__name__}: {e}'
    msgs = []
    if err:
        msgs.append(f'merge_aiters did not finish: {err}')
    for i, s in enumerate(sources):
        pr = [x for j, x in got if j == i]
        if pr != s:
            msgs.append(f'source {i} produced {s} but the merged stream carries {pr} for it')
    if len(got) != sum(len(s) for s in sources):
        msgs.append(f'{len(got)} items merged, {sum(len(s) for s in sources)} produced')
    # the generator's last, unanswered `next` is not followed by a recv: drop the trailing 'next' before 'stopiter'
    return {'log': log, 'msgs': msgs, 'schedule': getattr(chooser, 'trace', None)}


def merge_lines(sources: list[list[int]], log: list[str]) -> list[str]:
    enc = ';'.join(','.join(map(str, s)) if s else '-' for s in sources) if sources else 'none'
    out = [f'merge {enc}']
    # 'next' immediately followed (eventually) by 'stopiter' is the consumer's last call: the model's `next` label
    # applies only after a recv; the final call after the last recv is a `next` too (it resumes the generator).
    for e in log:
        out.append('obs ' + e)
    return out


class Boom(Exception):
    def __init__(self, e: int):
        super().__init__(e)
        self.e = e


def wait_case(items: list[int], pauses: list[int], plan: list[dict], chooser: Any) -> dict:
    """plan[k] for the k-th yielded item: {'send': n, 'cpause': p}; env script completes tasks at given steps."""
    from nextline.utils.aio import agen_with_wait
    log: list[str] = []
    got: list[int] = []
    futs: list[asyncio.Future] = []
    outcome: list[str] = []
    env_script: list[tuple[int, Optional[int], int]] = []   # (delay steps, exc or None, k-th created task)
    for k, p in enumerate(plan):
        for t in p.get('tasks', []):
            env_script.append(t)

    async def main() -> None:
        loop = asyncio.get_running_loop()
        src = Src(None, items, pauses, log, label='completeAnext')
        g = agen_with_wait(src)

        async def finisher(idx: int, delay: int, exc: Optional[int]) -> None:
            for _ in range(delay):
                await asyncio.sleep(0)
            f = futs[idx]
            if f.done():
                return
            log.append(f'completeTask {idx} {"-" if exc is None else exc}')
            if exc is None:
                f.set_result(None)
            else:
                f.set_exception(Boom(exc))
        helpers = []
        n = 0
        try:
            r = await g.__anext__()
            while True:
                log.append(f'yield {r}')
                got.append(r)
                p = plan[n % len(plan)] if plan else {}
                n += 1
                for _ in range(p.get('cpause', 0)):
                    await asyncio.sleep(0)
                specs = p.get('tasks', [])
                if specs:
                    new = []
                    for (delay, exc) in specs:
                        f = loop.create_future()
                        futs.append(f)
                        new.append(f)
                        helpers.append(asyncio.ensure_future(finisher(len(futs) - 1, delay, exc)))
                    log.append(f'send {len(new)}')
                    d, pnd = await g.asend(new)
                    enc = lambda fs: ','.join(str(futs.index(f)) for f in fs) if fs else '-'
                    log.append(f'sets {enc(d)} {enc(pnd)}')
                    for _ in range(p.get('cpause2', 0)):
                        await asyncio.sleep(0)
                    log.append('resume')
                    r = await g.__anext__()
                else:
                    log.append('send 0')
                    r = await g.asend(None)
        except StopAsyncIteration:
            log.append('stopiter')
            outcome.append('stop')
        except Boom as b:
            log.append(f'raised {b.e}')
            outcome.append(f'raised {b.e}')
        for h in helpers:
            h.cancel()
        for f in futs:
            if f.done() and not f.cancelled():
                f.exception()   # mark retrieved

    err = None
    try:
        ctl.run(lambda: asyncio.wait_for(main(), timeout=30), chooser)
    except (Exception, ctl.StepBudgetExceeded) as e:  # noqa
        err = f'{type(e).__name__}: {e}'
    msgs = []
    if err:
        msgs.append(f'agen_with_wait did not finish: {err}')
    if got != items[:len(got)]:
        msgs.append(f'yielded {got}, which is not a prefix of the wrapped iterator\'s items {items}')
    if outcome == ['stop'] and got != items:
        msgs.append(f'ended normally having yielded {got} of {items}')
    # an awaited task that failed while the generator was waiting must surface: if the log shows a failed task
    # completing strictly before a later `yield`, and that task had been sent before, it is a miss
    failed_at = None
    for k, e in enumerate(log):
        if e.startswith('completeTask') and not e.endswith('-'):
            failed_at = k if failed_at is None else failed_at
    if failed_at is not None and outcome and outcome[0] == 'stop':
        # the iterator ended normally although a task had failed before the end: allowed only if the failure came
        # after the last wake-up, i.e. after the final completeAnext
        last_anext = max(k for k, e in enumerate(log) if e == 'completeAnext')
        if failed_at < last_anext:
            # between the failure and the end there was a wake-up that saw the failed task unless the anext completed
            # in the same step; the model decides this exactly, the oracle flags the clear-cut case:
            ys = [k for k, e in enumerate(log) if e.startswith('yield') and k > failed_at]
            if ys:
                msgs.append(f'task failed at log position {failed_at} but items were still yielded afterwards and the '
                            f'iteration ended normally: {log}')
    if failed_at is not None:
        ys = [k for k, e in enumerate(log) if e.startswith('yield') and k > failed_at]
        if len(ys) >= 2:
            msgs.append(f'a task failed at log position {failed_at}, yet {len(ys)} more items were yielded: {log}')
    return {'log': log, 'msgs': msgs, 'schedule': getattr(chooser, 'trace', None)}


def wait_lines(items: list[int], log: list[str]) -> list[str]:
    return [f"wait {','.join(map(str, items)) if items else '-'}"] + ['obs ' + e for e in log]


_END = object()


def blocking_case(spec: dict, loop: asyncio.AbstractEventLoop, timeout: float = 20.0) -> dict:
    """Several `to_aiter(thread=True)` objects alive at once over iterables whose `next()` BLOCKS in its thread until the
    consumer, reacting to an item of another source, lets it go on.  Real threads, plain asyncio loop `loop`.

    spec: kinds[i] per source —
            'event'   generator, item k waits on a threading.Event before it is yielded
            'queue'   iter(queue.get, END): the consumer puts the item (and END after the source's last item was received)
            'free'    a plain list (never blocks)
            'reply:j' iter(queue.get, END) fed by the consumer: one reply per received item of source j, END after j's last
          counts[i] items per source (for 'reply:j' the count of j);
          order: the forced interleaving of the 'event'/'queue' sources (source indices, i occurring counts[i] times): the
            p-th item of it is let go only when the consumer has received the (p-1)-th;
          nap[i]: extra seconds every item of source i takes (a slow source); via: 'merge' (merge_aiters over all) or 'tasks'
            (one `async for` task per wrapper).
    Oracle: every item of every source exactly once, in the source's order, tagged with its source; everything finishes."""
    import queue
    import threading
    import time
    from nextline.utils.aio import merge_aiters, to_aiter
    kinds, counts, order, via = spec['kinds'], spec['counts'], spec['order'], spec['via']
    nap = spec.get('nap') or [0.0] * len(kinds)
    m = len(kinds)
    gated = [k in ('event', 'queue') for k in kinds]
    evs = [[threading.Event() for _ in range(c)] for c in counts]
    qs: list = [queue.Queue() for _ in range(m)]
    feeds: dict = {}
    for i, k in enumerate(kinds):
        if k.startswith('reply:'):
            feeds.setdefault(int(k[6:]), []).append(i)

    def item(i: int, k: int) -> Any:
        return 100 * i + k
    expected: list = [[item(i, k) for k in range(c)] for i, c in enumerate(counts)]
    for j, fed in feeds.items():
        for i in fed:
            expected[i] = [('reply', x) for x in expected[j]]
    seq, nxt = [], [0] * m
    for i in order:
        seq.append((i, nxt[i]))
        nxt[i] += 1
    assert all(nxt[i] == counts[i] for i in range(m) if gated[i]) and not any(nxt[i] for i in range(m) if not gated[i]), spec

    def ev_source(i: int) -> Any:
        for k in range(counts[i]):
            evs[i][k].wait()
            if nap[i]:
                time.sleep(nap[i])
            yield item(i, k)

    def q_source(i: int) -> Any:
        if not nap[i]:
            return iter(qs[i].get, _END)

        def get() -> Any:
            x = qs[i].get()
            time.sleep(nap[i])
            return x
        return iter(get, _END)

    def make(i: int) -> Any:
        return ev_source(i) if kinds[i] == 'event' else list(expected[i]) if kinds[i] == 'free' else q_source(i)

    def release(p: int) -> None:
        if p < len(seq):
            i, k = seq[p]
            if kinds[i] == 'event':
                evs[i][k].set()
            else:
                qs[i].put(item(i, k))

    def release_all() -> None:
        for i in range(m):
            for e in evs[i]:
                e.set()
            for _ in range(counts[i] + 3):
                qs[i].put(_END)
    got: list = []
    per: list = [[] for _ in range(m)]
    nchain = [0]

    def on_item(i: Any, x: Any) -> None:
        got.append((i, x))
        if not (isinstance(i, int) and 0 <= i < m):
            return
        per[i].append(x)
        if kinds[i] == 'queue' and len(per[i]) == counts[i]:
            qs[i].put(_END)
        for r in feeds.get(i, []):
            qs[r].put(('reply', x))
            if len(per[i]) == counts[i]:
                qs[r].put(_END)
        if gated[i]:
            nchain[0] += 1
            release(nchain[0])
    msgs: list = []
    info: dict = {'finished': False, 'seconds': None}

    async def main() -> None:
        for i in range(m):
            if counts[i] == 0 and kinds[i] not in ('event', 'free'):
                qs[i].put(_END)
        aits = [to_aiter(make(i), thread=True) for i in range(m)]
        if via == 'merge':
            async def collect() -> None:
                async for i, x in merge_aiters(*aits):
                    on_item(i, x)
            tasks = [asyncio.ensure_future(collect())]
        else:
            async def one(i: int) -> None:
                async for x in aits[i]:
                    on_item(i, x)
            tasks = [asyncio.ensure_future(one(i)) for i in range(m)]
        t0 = time.monotonic()
        release(0)
        try:
            done, pending = await asyncio.wait(tasks, timeout=timeout)
        finally:
            release_all()       # whatever happened: no thread may stay blocked (the check process has to be able to exit)
        info['seconds'] = round(time.monotonic() - t0, 3)
        info['finished'] = not pending
        if pending:
            old = loop.get_exception_handler()
            loop.set_exception_handler(lambda l, c: None)   # the abandoned requests end after the release: nobody retrieves them
            for t in pending:
                t.cancel()
            rest = [t for t in asyncio.all_tasks() if t is not asyncio.current_task()]
            if rest:
                await asyncio.wait(rest, timeout=10)
            await asyncio.sleep(0.05)
            for t in rest:
                if t.done() and not t.cancelled():
                    t.exception()       # mark retrieved (StopAsyncIteration of an abandoned request)
            loop.set_exception_handler(old)
        for t in done:
            if not t.cancelled() and t.exception() is not None:
                msgs.append(f'the consumer got {type(t.exception()).__name__}: {t.exception()}')
    try:
        loop.run_until_complete(main())
    finally:
        release_all()
    return {'msgs': msgs, 'info': info, 'per': per, 'expected': expected, 'got': got, 'seq': seq}


def blocking_verdict(spec: dict, r: dict, timeout: float) -> list:
    msgs = list(r['msgs'])
    per, expected, info = r['per'], r['expected'], r['info']
    what = 'merge_aiters over' if spec['via'] == 'merge' else 'one consumer task per wrapper for'
    head = (f"{what} {len(expected)} to_aiter(thread=True) sources {spec['kinds']} whose next() blocks until the consumer has received "
            f"the preceding item of the forced interleaving {spec['order']}")
    if not info['finished']:
        msgs.insert(0, f'{head}: not finished after {timeout:.0f} s; delivered per source {per!r}, produced {expected!r}')
    else:
        for i, (p, e) in enumerate(zip(per, expected)):
            if p != e:
                msgs.append(f'{head}: source {i} produced {e!r} but {p!r} was delivered for it')
        if len(r['got']) != sum(len(e) for e in expected):
            msgs.append(f"{head}: {len(r['got'])} items delivered, {sum(len(e) for e in expected)} produced: {r['got']!r}")
    return msgs


def blocking_specs(rng: random.Random) -> list:
    specs: list = []
    for via in ('merge', 'tasks'):
        # ping-pong: A's k-th item needs B's (k-1)-th received and B's k-th needs A's k-th; either source first
        for kinds in (['event', 'event'], ['queue', 'queue'], ['queue', 'event']):
            for first in (0, 1):
                n = 4
                specs.append({'shape': 'ping-pong', 'kinds': kinds, 'counts': [n, n], 'order': [first, 1 - first] * n, 'via': via})
        # request-reply: the consumer answers every item of a source that never blocks into the queue another source blocks on
        for kinds in (['reply:1', 'free'], ['free', 'reply:0'], ['reply:2', 'reply:2', 'free'], ['event', 'reply:0', 'free', 'reply:2']):
            counts = [3 if k != 'event' else 2 for k in kinds]
            for i, k in enumerate(kinds):
                if k.startswith('reply:'):
                    counts[i] = counts[int(k[6:])]
            specs.append({'shape': 'request-reply', 'kinds': kinds, 'counts': counts, 'order': [i for i, k in enumerate(kinds) if k == 'event'
                                                                                                    for _ in range(counts[i])], 'via': via})
    # one slow source (every item takes a while and is let go only after the others are through): the others deliver everything meanwhile
    for m, slow in ((3, 0), (3, 2), (4, 1)):
        counts = [3] * m
        counts[slow] = 2
        others = [i for i in range(m) if i != slow]
        order = [i for _ in range(3) for i in others] + [slow] * counts[slow]
        nap = [0.0] * m
        nap[slow] = 0.03
        specs.append({'shape': 'one-slow', 'kinds': [rng.choice(['event', 'queue']) for _ in range(m)], 'counts': counts, 'order': order,
                      'nap': nap, 'via': 'merge'})
    # any forced interleaving
    for _ in range(14):
        m = rng.randint(2, 4)
        kinds = [rng.choice(['event', 'queue']) for _ in range(m)]
        counts = [rng.randint(0, 4) for _ in range(m)]
        order = [i for i, c in enumerate(counts) for _ in range(c)]
        rng.shuffle(order)
        specs.append({'shape': 'random', 'kinds': kinds, 'counts': counts, 'order': order, 'via': rng.choice(['merge', 'merge', 'tasks'])})
    return specs


def _shard(cases: list) -> list:
    out = []
    for idx, kind, args, sched in cases:
        chooser: Any = ctl.Replay(sched) if isinstance(sched, list) else ctl.Rand(random.Random(sched))
        if kind == 'merge':
            sources, pauses, cpause = args
            r = merge_case(sources, pauses, cpause, chooser)
            lines = merge_lines(sources, r['log'])
        else:
            items, pauses, plan = args
            r = wait_case(items, pauses, plan, chooser)
            lines = wait_lines(items, r['log'])
        out.append((idx, lines, r['msgs'], r['schedule']))
    return out


def dfs_merge(sources: list, pauses: list, cpause: list, limit: int) -> list:
    """All schedules (DFS over the permuting loop's choice points) of one small configuration."""
    d = ctl.Dfs()
    res = []
    while True:
        r = merge_case(sources, pauses, cpause, d)
        res.append((merge_lines(sources, r['log']), r['msgs'], list(d.trace)))
        if len(res) >= limit or not d.next_run():
            break
    return res


def _dfs_shard(cfgs: list) -> list:
    out = []
    for cfg in cfgs:
        sources, pauses, cpause, limit = cfg
        for lines, msgs, sched in dfs_merge(sources, pauses, cpause, limit):
            out.append((('merge', sources, pauses, cpause), lines, msgs, sched))
    return out


def run(chk: common.Check) -> None:
    rng = chk.rng
    chk.cov.rule = ('merge_aiters: 0–4 sources × 0–4 items with per-call suspension patterns and consumer pauses, all schedules (DFS over the '
                    'permuting loop) for small configurations and seeded random schedules for larger ones; agen_with_wait: wrapped iterator '
                    '+ tasks handed in by asend that succeed/fail after a set number of steps; to_aiter with and without thread; '
                    '2–4 thread-backed to_aiter sources alive at once whose next() blocks (Event.wait / Queue.get) until the consumer has '
                    'received the preceding item of a forced interleaving (ping-pong, request-reply, one slow source, random orders), '
                    'merged or consumed by one task each, real threads. '
                    'Observed label sequences are checked for acceptance by the Lean LTS. Non-trivial: at least two sources or one task; '
                    'distinct = distinct (configuration, observed label sequence).')
    chk.assumptions += ['asyncio.wait(FIRST_COMPLETED) returns, when the waiting task next runs, exactly the futures done by then (CPython)',
                        'set.pop() order on tasks is arbitrary: the model allows every order']
    cases: list = []
    idx = 0
    nrand = 1500 if chk.tier == 'quick' else 20000
    for _ in range(nrand):
        if rng.random() < 0.6:
            ns = rng.randint(0, 4)
            sources = [[100 * i + k for k in range(rng.randint(0, 4))] for i in range(ns)]
            pauses = [[rng.randint(0, 3) for _ in range(rng.randint(1, 3))] for _ in range(ns)]
            cpause = [rng.randint(0, 2) for _ in range(rng.randint(1, 3))]
            cases.append((idx, 'merge', (sources, pauses, cpause), rng.randrange(1 << 30)))
        else:
            items = list(range(rng.randint(0, 4)))
            pauses = [rng.randint(0, 3) for _ in range(rng.randint(1, 3))]
            plan = []
            for _ in range(rng.randint(1, 3)):
                p: dict = {'cpause': rng.randint(0, 2), 'cpause2': rng.randint(0, 2)}
                if rng.random() < 0.6:
                    p['tasks'] = [(rng.randint(0, 6), rng.choice([None, None, 7, 9])) for _ in range(rng.randint(1, 2))]
                plan.append(p)
            cases.append((idx, 'wait', (items, pauses, plan), rng.randrange(1 << 30)))
        idx += 1
    n = 16
    shards: list = [[] for _ in range(n)]
    for c in cases:
        shards[c[0] % n].append(c)
    dfs_cfgs = []
    lim = 400 if chk.tier == 'quick' else 6000
    for sources, pauses, cpause in [
        ([[1], [101]], [[0], [0]], [0]),
        ([[1, 2], [101]], [[0], [1]], [0]),
        ([[1], [101], [201]], [[0], [0], [0]], [0]),
        ([[1, 2], [101, 102]], [[1], [0]], [1]),
        ([[], [101]], [[0], [0]], [0]),
        ([[1, 2, 3]], [[0, 1]], [0]),
        ([[1], [101], []], [[1], [0], [0]], [0]),
        ([[1, 2], [101, 102], [201]], [[0], [0], [1]], [0]),
    ]:
        dfs_cfgs.append((sources, pauses, cpause, lim))
    with mp.get_context('fork').Pool(n) as pool:
        res = pool.map(_shard, shards)
        dres = pool.map(_dfs_shard, [dfs_cfgs[i::8] for i in range(8)])
    rows = []
    for sh in res:
        for i, lines, msgs, sched in sh:
            rows.append((cases[i][1:], lines, msgs, sched))
    ndfs = 0
    for sh in dres:
        for cfg, lines, msgs, sched in sh:
            rows.append((cfg, lines, msgs, sched))
            ndfs += 1
    chk.cov.count('kinds', 'dfs-schedules', ndfs)
    chk.cov.exhaustive = ndfs < lim * len(dfs_cfgs)
    chk.cov.extra['exhaustive_scope'] = f'all schedules (up to {lim} per configuration) of {len(dfs_cfgs)} small merge configurations'
    # to_aiter
    ta = []
    for _ in range(20):
        ta.append([rng.randint(0, 9) for _ in range(rng.randint(0, 6))])
    ta_msgs = []

    # items of any kind are items: None, falsy values, exceptions as values, nested iterables (oracle only: the model's items are numbers)
    ta_odd: list = [[1, None, 2, 3], [None], [None, None], [0, False, '', None, [], ()], [ValueError('as a value'), 1], [[1, 2], None, {}],
                    [StopIteration(), 5], [float('inf'), -1, None]]

    async def ta_main() -> None:
        from nextline.utils.aio import to_aiter
        for l in ta + ta_odd:
            for thread in (False, True):
                got = [x async for x in to_aiter(iter(l), thread=thread)]
                if len(got) != len(l) or any(a is not b and a != b for a, b in zip(got, l)):
                    ta_msgs.append(f'to_aiter(thread={thread}) over {l!r} yielded {got!r}')
    async def ta_reuse() -> None:
        # the wrapper is an iterator: once exhausted it stays exhausted; consumers sharing it split the items, nobody gets one twice
        from nextline.utils.aio import to_aiter
        for l in ([1, 2, 3], list(range(12)), []):
            for thread in (False, True):
                it = to_aiter(l, thread=thread)
                first = [x async for x in it]
                again = [x async for x in it]
                extra = []
                for _ in range(2):
                    try:
                        extra.append(await it.__anext__())
                    except StopAsyncIteration:
                        pass
                if first != l or again or extra:
                    ta_msgs.append(f'to_aiter(thread={thread}) over {l!r}: first pass {first!r}, second pass {again!r}, __anext__ after the end {extra!r}')
                shared = to_aiter(l, thread=thread)
                got: list = []

                async def worker() -> None:
                    async for x in shared:
                        got.append(x)
                        await asyncio.sleep(0)
                await asyncio.gather(worker(), worker(), worker())
                if sorted(got) != sorted(l):
                    ta_msgs.append(f'three consumers sharing one to_aiter(thread={thread}) over {l!r} received {sorted(got)!r}')
    async def ta_cancel() -> None:
        # a consumer that gives up one request (cancels it d loop steps after making it) and goes on iterating: without a thread the
        # wrapper never suspends, so a request either has not taken an item yet or has delivered it — nothing may go missing
        from nextline.utils.aio import to_aiter
        for l in (list(range(8)), [None, 0, 'a'], [5]):
            for pos in range(len(l) + 1):
                for d in (0, 1, 2, 3):
                    it = to_aiter(iter(l), thread=False)
                    got: list = []
                    try:
                        for _ in range(pos):
                            got.append(await it.__anext__())
                    except StopAsyncIteration:
                        pass          # ended early: the comparison below reports it
                    req = asyncio.ensure_future(it.__anext__())
                    for _ in range(d):
                        await asyncio.sleep(0)
                    req.cancel()
                    try:
                        got.append(await req)
                    except (asyncio.CancelledError, StopAsyncIteration):
                        pass
                    got += [x async for x in it]
                    if len(got) != len(l) or any(a is not b and a != b for a, b in zip(got, l)):
                        ta_msgs.append(f'to_aiter(thread=False) over {l!r}: request #{pos + 1} cancelled {d} loop step(s) after it was made, then '
                                       f'iteration continued: received {got!r}')
    asyncio.new_event_loop().run_until_complete(ta_main())
    asyncio.new_event_loop().run_until_complete(ta_reuse())
    asyncio.new_event_loop().run_until_complete(ta_cancel())
    chk.cov.count('kinds', 'to_aiter-request-cancelled')
    # several thread-backed wrappers alive at once over iterables that block until another source (or the consumer reacting to another
    # source's item) has made progress: ping-pong, request-reply, one slow source, random forced interleavings
    blk_fail: list = []
    blk_timeout = 20.0          # expected duration of one scenario: a few ms (≤ 0.2 s with a slow source)
    blk_loop = asyncio.new_event_loop()
    blk_specs = blocking_specs(rng)
    ntimeouts = 0
    for bi, spec in enumerate(blk_specs):
        if ntimeouts >= 2:
            # (each one that does not finish costs the whole time-out; the two reported ones are concrete failing inputs)
            chk.cov.extra['to_aiter_blocking_not_run'] = len(blk_specs) - bi
            common.log(f'C19: {len(blk_specs) - bi} further scenarios with blocking sources not run after two of them did not finish')
            break
        try:
            r = blocking_case(spec, blk_loop, blk_timeout)
            bmsgs = blocking_verdict(spec, r, blk_timeout)
            seconds = r['info']['seconds']
        except Exception as e:   # noqa
            bmsgs = [f'scenario failed: blocking sources {spec}: {type(e).__name__}: {e}']
            seconds = None
            r = {'per': None, 'info': {'finished': None}}
        if r['info']['finished'] is False:
            ntimeouts += 1
        chk.cov.case(('toaiter-blocking', repr(spec)), trivial=len(spec['kinds']) < 2)
        chk.cov.count('kinds', 'to_aiter-blocking-' + spec['shape'])
        chk.cov.count('kinds', 'to_aiter-blocking-via-' + spec['via'])
        if seconds is not None:
            chk.cov.extra['to_aiter_blocking_max_seconds'] = max(chk.cov.extra.get('to_aiter_blocking_max_seconds', 0), seconds)
        if bmsgs:
            blk_fail.append((('toaiter-blocking', spec, {'delivered_per_source': repr(r['per']), 'seconds': seconds}), [], bmsgs, None))
    try:
        blk_loop.run_until_complete(blk_loop.shutdown_default_executor(10))
        blk_loop.close()
    except Exception as e:   # noqa
        common.log(f'C19: closing the loop of the blocking scenarios: {type(e).__name__}: {e}')
    model_out = None
    model_err = None
    all_lines = [ln for (_, lines, _, _) in rows for ln in lines] + [f"toaiter {','.join(map(str, l)) if l else '-'}" for l in ta]
    try:
        model_out = common.model_batch('aio', all_lines)
    except Exception as e:
        model_err = f'{type(e).__name__}: {e}'
    pos = 0
    oracle_fail = []
    rejected = []
    for cfg, lines, msgs, sched in rows:
        kind = cfg[0]
        nontrivial = (kind == 'merge' and len(cfg[1]) >= 2) or (kind == 'wait' and any('completeTask' in l for l in lines))
        chk.cov.case((repr(cfg), tuple(lines)), trivial=not nontrivial)
        chk.cov.count('kinds', kind)
        for l in lines[1:]:
            chk.cov.count('labels', l.split()[1])
        if msgs:
            oracle_fail.append((cfg, lines, msgs, sched))
        if model_out is not None:
            mo = model_out[pos:pos + len(lines)]
            pos += len(lines)
            bad = [k for k, r in enumerate(mo) if r == 'n=0' or r == 'bad-op']
            if bad:
                rejected.append((cfg, lines, bad[0], sched))
            elif not any(l.endswith(('stopiter',)) or l.startswith('obs raised') for l in lines[1:]):
                rejected.append((cfg, lines, len(lines) - 1, sched))   # no terminal observation: lost liveness
    if model_out is not None:
        for l, r in zip(ta, model_out[pos:]):
            if r != (','.join(map(str, l)) if l else ''):
                rejected.append((('toaiter', l), [], 0, None))
    for m in ta_msgs:
        oracle_fail.append((('toaiter',), [], [m], None))
    oracle_fail += blk_fail
    chk.cov.count('kinds', 'to_aiter', (len(ta) + len(ta_odd)) * 2)
    chk.cov.traces_validated = len(rows) if model_out is not None else 0
    if rows:
        chk.cov.sample({'config': rows[0][0], 'observed_labels': rows[0][1][:40]})
        chk.cov.sample({'config': rows[-1][0], 'observed_labels': rows[-1][1][:40]})
    for cfg, lines, msgs, sched in oracle_fail[:5]:
        chk.violation(f'C19 oracle: {msgs[0]}', {'config': cfg, 'schedule': sched, 'observed_labels': lines, 'oracle_messages': msgs})
    broken = common.proof_broken(chk)
    if model_err:
        broken.append(f'model driver unusable: {model_err}')
    if rejected:
        chk.cov.disagreements_checked = len(rejected)
        cfg, lines, k, sched = min(rejected, key=lambda r: len(r[1]))
        broken.append(f'correspondence J broken: {len(rejected)} observed traces are not accepted by the model; shortest: {cfg} '
                      f'rejected at {lines[k] if lines else "-"!r}')
    if broken and not oracle_fail:
        d = None
        if rejected:
            cfg, lines, k, sched = min(rejected, key=lambda r: len(r[1]))
            d = {'config': cfg, 'schedule': sched, 'observed_labels': lines, 'rejected_at': k}
        chk.violation('C19: ' + ' | '.join(broken[:3]), {'no_longer_checks': broken, 'shortest_rejected_trace': d}, no_input=True)
