"""C14 — runs are numbered uniquely and execute the script that is on display.  Model A."""
from __future__ import annotations

from typing import Any

from .. import common, lifecycle
from . import _life

KINDS = {'prn', 'pri', 'pst', 'cs', 'ret', 'blocked'}


def oracle_serial(r: dict) -> list[str]:
    msgs = []
    stmt, nxt, tt, tm = r['init']
    nxt = int(nxt)
    displayed = None
    last_rn = None
    for op, rep in zip(r['ops'], r['impl']):
        toks = rep.split()
        ok = any(t.startswith('ret:') and t.endswith(':ok') for t in toks)
        w = op.split()
        if w[0] == 'reset' and any(t == 'ret:reset:ok' for t in toks):
            if w[1] != '-':
                stmt = int(w[1])
            if w[2] != '-':
                nxt = int(w[2])
            if w[3] != '-':
                tt = w[3] == '1'
            if w[4] != '-':
                tm = w[4] == '1'
        if w[0] == 'reset' and any(t == 'ret:reset:MachineError' for t in toks):
            if any(t.startswith(('prn:', 'pst:', 'pri:')) for t in toks):
                msgs.append(f'refused reset had effects: {rep}')
        # publications of different topics within one operation are not ordered relative to each other:
        # process statement, then run number, then run records, then child starts
        order = {'pst': 0, 'prn': 1, 'pri': 2, 'cs:': 3}
        rn_before = last_rn
        for t in sorted(toks, key=lambda t: order.get(t[:3], 9)):
            if t.startswith('pst:'):
                displayed = t[4:]
            if t.startswith('prn:'):
                n = int(t[4:])
                if n != nxt:
                    msgs.append(f'run number {n} handed out, expected {nxt}')
                last_rn = n
                nxt = n + 1
            if t.startswith('pri:'):
                n = int(t[4:].split('/')[0])
                if last_rn is not None and n != last_rn and not (n == rn_before and t.endswith('/finished')):
                    msgs.append(f'run record carries run number {n}, the current run is {last_rn}')
            if t.startswith('cs:'):
                rn, st, a, b = t[3:].split('/')
                if displayed is not None and st != displayed:
                    msgs.append(f'the child executes statement {st} while statement {displayed} is on display')
                if st != str(stmt) or (a == '1') != bool(tt) or (b == '1') != bool(tm):
                    msgs.append(f'the child was started with (stmt {st}, trace_threads {a}, trace_modules {b}); the last fully applied options are '
                                f'({stmt}, {int(bool(tt))}, {int(bool(tm))})')
                if last_rn is not None and int(rn) != last_rn:
                    msgs.append(f'the child runs as run {rn}, the published run number is {last_rn}')
    return msgs


def overlap_reset_run(d: int, from_finished: bool) -> dict:
    """reset(statement=NEW, run_no_start_from=100) from one task and run() from another, d scheduler steps later, stock order.  At
    these offsets the unchanged code lets exactly one of the two win cleanly (the transition of the other is cancelled before it has
    changed anything); later offsets are open finding F-A2 and are not run here."""
    import asyncio
    from .. import fakes, loop as ctl
    from nextline.spawned import RunResult

    async def main() -> dict:
        sc = lifecycle.Scenario(0, 1, False, False)
        await sc.setup()
        await sc.op('start')
        if from_finished:
            await sc.op('run')
            await sc.op('exit 5')
        nl = sc.nl
        n0 = len(sc.world.children)
        t1 = asyncio.ensure_future(nl.reset(statement=lifecycle.stmt_text(7), run_no_start_from=100))
        for _ in range(d):
            await asyncio.sleep(0)
        t2 = asyncio.ensure_future(nl.run())
        res = await asyncio.gather(t1, t2, return_exceptions=True)
        await lifecycle.settle()
        out: dict = {'d': d, 'from_finished': from_finished, 'results': [type(r).__name__ if isinstance(r, BaseException) else 'ok' for r in res],
                     'state': nl.state, 'displayed': lifecycle.stmt_id(nl.statement), 'executed': None, 'run_no': None}
        new = sc.world.children[n0:]
        if new:
            ra = new[-1].run_arg
            out['executed'] = lifecycle.stmt_id(ra.statement)
            out['run_no'] = ra.run_no
        for c in sc.world.live():
            c.exit(RunResult(ret=None), exitcode=0)
        await lifecycle.settle()
        # afterwards a plain reset() + run(): the numbering goes on from what was displayed, whichever call won
        out['run_no_displayed'] = nl.run_no
        await nl.close()
        return out
    fakes.install()
    try:
        return ctl.run(main, ctl.Fifo())
    except (Exception, ctl.StepBudgetExceeded) as e:  # noqa
        return {'d': d, 'from_finished': from_finished, 'error': f'{type(e).__name__}: {e}'}


# ---- several Nextline objects in one process ------------------------------------------------------------------------------------------
# The property is stated per object: what an object puts on display (statement, get_source(), get_source_line()) is the script ITS run
# executes.  A server hosts several objects in one process and one event loop; whatever one object is started / reset with must not
# change what another one displays or executes.

MULTI_LIVE = ('initialized', 'running', 'finished')


def _norm(lines: list) -> list:
    lines = list(lines)
    while lines and lines[-1] == '':
        lines.pop()
    return lines


def multi_stmt(rng, tag: str) -> tuple:
    """a script of 1..4 lines (no trailing blanks), unique by its tag; ('s', text) = given as str, ('p', text) = given as a path"""
    n = rng.randint(1, 4)
    text = '\n'.join(f'{tag}_{i} = {rng.randint(0, 99)}' for i in range(n)) + rng.choice(['', '\n'])
    return ('p' if rng.random() < 0.15 else 's', text)


def gen_multi(rng, nobj: int, nops: int) -> dict:
    """a valid serial history over `nobj` objects; only operations the state machine accepts are generated (refused calls are the
    business of the single-object histories above)"""
    names = 'ABC'
    stmts = [multi_stmt(rng, f'{names[i].lower()}0') for i in range(nobj)]
    state = ['created'] * nobj
    nreset = [0] * nobj
    ops: list = []
    for _ in range(nops):
        created = [i for i in range(nobj) if state[i] == 'created']
        cand: list = []
        for i in range(nobj):
            st = state[i]
            if st == 'created':
                cand += [('start', i)] * 4
            elif st == 'initialized':
                cand += [('run', i)] * 2 + [('reset', i)] * 3 + [('close', i)]
            elif st == 'running':
                cand += [('exit', i)] * 2
            elif st == 'finished':
                cand += [('reset', i)] * 4 + [('close', i)]
        if len(created) >= 2:
            cand += [('pstart', None)] * 3
        resettable = [i for i in range(nobj) if state[i] in ('initialized', 'finished')]
        if len(resettable) >= 2:
            cand += [('preset', None)] * 3
        if not cand:
            break
        kind, i = rng.choice(cand)

        def new_stmt(i: int):
            nreset[i] += 1
            return multi_stmt(rng, f'{names[i].lower()}{nreset[i]}')
        if kind == 'start':
            ops.append(['start', i]); state[i] = 'initialized'
        elif kind == 'pstart':
            who = rng.sample(created, rng.randint(2, len(created)))
            ops.append(['pstart', who])
            for j in who:
                state[j] = 'initialized'
        elif kind == 'reset':
            ops.append(['reset', i, new_stmt(i) if rng.random() < 0.65 else None]); state[i] = 'initialized'
        elif kind == 'preset':
            who = rng.sample(resettable, rng.randint(2, len(resettable)))
            ops.append(['preset', [[j, new_stmt(j) if rng.random() < 0.8 else None] for j in who]])
            for j in who:
                state[j] = 'initialized'
        elif kind == 'run':
            ops.append(['run', i]); state[i] = 'running'
        elif kind == 'exit':
            ops.append(['exit', i]); state[i] = 'finished'
        elif kind == 'close':
            ops.append(['close', i]); state[i] = 'closed'
    return {'stmts': stmts, 'ops': ops}


def multi_corpus() -> list:
    a, b, c = ('s', 'a = 1\nprint(a)'), ('s', 'import os\nb = 2\nprint(b)\nprint(b, b)\n'), ('s', 'c = 3\n')
    b2, a2 = ('s', 'bb = 22\nprint(bb)\n'), ('s', 'aa = 11')
    pa, pb = ('p', 'pa = 1\nprint(pa)\n'), ('p', 'pb = 2\npb += 1\nprint(pb)\n')
    return [
        {'stmts': [a, b], 'ops': [['start', 0], ['start', 1], ['run', 0], ['exit', 0], ['run', 1], ['exit', 1]]},
        {'stmts': [a, b], 'ops': [['start', 0], ['start', 1], ['reset', 1, b2], ['run', 0], ['run', 1], ['exit', 0], ['exit', 1]]},
        {'stmts': [a, b], 'ops': [['start', 0], ['run', 0], ['start', 1], ['exit', 0], ['reset', 0, None], ['reset', 1, b2], ['run', 0], ['run', 1],
                                  ['exit', 1], ['close', 1], ['exit', 0], ['reset', 0, None], ['run', 0]]},
        {'stmts': [a, b, c], 'ops': [['pstart', [0, 1, 2]], ['run', 1], ['preset', [[0, a2], [2, None]]], ['run', 0], ['run', 2], ['exit', 1],
                                     ['reset', 1, b2], ['exit', 0], ['exit', 2]]},
        {'stmts': [a, b], 'ops': [['start', 1], ['start', 0], ['close', 0], ['run', 1], ['exit', 1], ['reset', 1, None], ['run', 1]]},
        {'stmts': [a, pb], 'ops': [['start', 0], ['start', 1], ['run', 0], ['run', 1], ['exit', 0], ['exit', 1], ['reset', 1, b2], ['reset', 0, pa],
                                   ['run', 0], ['run', 1]]},
        {'stmts': [pa, pb], 'ops': [['pstart', [0, 1]], ['run', 1], ['run', 0], ['exit', 1], ['reset', 1, b], ['exit', 0]]},
    ]


def multi_object(spec: dict) -> dict:
    """Drive several Nextline objects (simulated children, one event loop) through spec['ops']; after every operation look at every live
    object: its statement, get_source() / get_source(<script file name>) / get_source_line(n) must be its own current script, and the
    RunArg handed to the child of its run and the run info must carry that same script.  spec['schedule']: None = FIFO, int = seed of a
    random schedule."""
    import asyncio
    import random
    import tempfile
    from pathlib import Path
    from .. import fakes, loop as ctl
    from nextline.spawned import RunResult

    msgs: list = []
    notes: dict = {}
    names = 'ABC'

    def note(k: str) -> None:
        notes[k] = notes.get(k, 0) + 1

    async def main(tmp: str) -> None:
        from nextline import Nextline
        world = fakes.reset_world()
        world.signal_exits = False
        nfile = [0]

        def mk(st: Any) -> Any:
            kind, text = st
            if kind == 's':
                return text
            p = Path(tmp) / f'script_{nfile[0]}.py'
            nfile[0] += 1
            p.write_text(text)
            return p
        objs: list = []
        for i, st in enumerate(spec['stmts']):
            s = mk(st)
            objs.append({'nl': Nextline(s, run_no_start_from=1 + 100 * i), 'stmt': s, 'text': st[1], 'state': 'created', 'child': None,
                         'name': names[i]})

        def look(when: str) -> None:
            for o in objs:
                if o['state'] not in MULTI_LIVE:
                    continue
                nl, name, want = o['nl'], o['name'], _norm(o['text'].split('\n'))
                is_path = not isinstance(o['stmt'], str)
                note('looks')
                try:
                    st = nl.statement
                    fn = nl.get('script_file_name')
                except Exception as e:  # noqa
                    msgs.append(f'{when}: {name}.statement / script file name not readable: {type(e).__name__}: {e}')
                    continue
                if st != o['stmt']:
                    msgs.append(f"{when}: {name}.statement is {st!r}; {name}'s script is {o['stmt']!r}")
                    continue
                c = o['child']
                if o['state'] == 'running' and c is not None and c.run_arg.statement != st:
                    msgs.append(f'{when}: {name} is running {c.run_arg.statement!r} while {name}.statement is {st!r}')
                    continue
                views = [((), 'get_source()'), ((fn,), f'get_source({fn!r})')]
                if is_path:
                    views.append(((str(o['stmt']),), 'get_source(<path of the script>)'))
                for args, label in views:
                    try:
                        shown = nl.get_source(*args)
                    except Exception as e:  # noqa
                        if is_path and args != (str(o['stmt']),):
                            note('path-script-not-displayable')      # a script given as a path has no text to show under '<string>'
                            continue
                        msgs.append(f'{when}: {name}.{label} raised {type(e).__name__}: {e}')
                        break
                    if is_path and not _norm(shown) and args != (str(o['stmt']),):
                        note('path-script-not-displayable')      # nothing on display is not a wrong script on display
                        continue
                    if _norm(shown) != want:
                        msgs.append(f"{when}: {name}.{label} shows {list(shown)!r}; {name}'s script"
                                    f"{' (the one its run is executing)' if o['state'] == 'running' else ''} is {o['text']!r}")
                        break
                    bad = None
                    for n in range(0, len(want) + 2):
                        line = nl.get_source_line(n, *args)
                        exp = want[n - 1] if 1 <= n <= len(want) else ''
                        if line != exp:
                            bad = (n, line, exp)
                            break
                    if bad:
                        msgs.append(f"{when}: {name}.get_source_line({bad[0]}{''.join(', ' + repr(a) for a in args)}) shows {bad[1]!r}; "
                                    f"line {bad[0]} of {name}'s script is {bad[2]!r}")
                        break

        async def call(what: str, *coros: Any) -> None:
            ts = [asyncio.ensure_future(c) for c in coros]
            await lifecycle.settle()
            pend = [t for t in ts if not t.done()]
            for t in pend:
                t.cancel()
            if pend:
                await lifecycle.settle()
                raise RuntimeError(f'{what} did not return')
            for t in ts:
                t.result()

        def reset_kw(o: dict, st: Any) -> dict:
            if st is None:
                return {}
            s = mk(st)
            o['pending'] = (s, st[1])
            return {'statement': s}

        def reset_done(o: dict) -> None:
            if o.get('pending'):
                o['stmt'], o['text'] = o.pop('pending')
            o['state'] = 'initialized'

        for k, op in enumerate(spec['ops']):
            kind = op[0]
            when = f'after operation {k} {op!r}'
            if kind == 'start':
                o = objs[op[1]]
                await call(f"{o['name']}.start()", o['nl'].start())
                o['state'] = 'initialized'
            elif kind == 'pstart':
                await call('start() of several objects at once', *[objs[j]['nl'].start() for j in op[1]])
                for j in op[1]:
                    objs[j]['state'] = 'initialized'
            elif kind == 'reset':
                o = objs[op[1]]
                await call(f"{o['name']}.reset()", o['nl'].reset(**reset_kw(o, op[2])))
                reset_done(o)
            elif kind == 'preset':
                await call('reset() of several objects at once', *[objs[j]['nl'].reset(**reset_kw(objs[j], st)) for j, st in op[1]])
                for j, _ in op[1]:
                    reset_done(objs[j])
            elif kind == 'run':
                o = objs[op[1]]
                name = o['name']
                n0 = len(world.children)
                look(f'before operation {k} {op!r}')
                await call(f'{name}.run()', o['nl'].run())
                new = world.children[n0:]
                if len(new) != 1:
                    raise RuntimeError(f'{name}.run() started {len(new)} children')
                o['child'], o['state'] = new[0], 'running'
                ra = new[0].run_arg
                if ra.statement != o['stmt']:
                    msgs.append(f"{when}: the run of {name} executes {ra.statement!r}; {name}'s script on display was {o['stmt']!r}")
                ri = o['nl'].get('run_info')
                if ri.run_no != ra.run_no or o['nl'].run_no != ra.run_no:
                    msgs.append(f'{when}: the run of {name} executes as run {ra.run_no}; run info says {ri.run_no}, run_no {o["nl"].run_no}')
                if isinstance(o['stmt'], str) and ri.script != o['stmt']:
                    msgs.append(f"{when}: the run info of {name}'s run reports the script {ri.script!r}; the run executes {ra.statement!r}")
            elif kind == 'exit':
                o = objs[op[1]]
                o['child'].exit(RunResult(ret=None), exitcode=0)
                await lifecycle.settle()
                if o['nl'].state != 'finished':
                    raise RuntimeError(f"{o['name']} is {o['nl'].state!r} after its child has exited")
                o['state'] = 'finished'
            elif kind == 'close':
                o = objs[op[1]]
                await call(f"{o['name']}.close()", o['nl'].close())
                o['state'] = 'closed'
            else:
                raise ValueError(op)
            look(when)
            if len(msgs) >= 6:
                break
        for o in objs:
            if o['state'] == 'running':
                o['child'].exit(RunResult(ret=None), exitcode=0)
        await lifecycle.settle()
        for o in objs:
            if o['state'] in MULTI_LIVE:
                await asyncio.wait_for(o['nl'].close(), timeout=5)
        await lifecycle.settle()

    fakes.install()
    sched = spec.get('schedule')
    chooser = ctl.Fifo() if sched is None else ctl.Rand(random.Random(sched))
    try:
        with tempfile.TemporaryDirectory(prefix='nlv-c14-') as tmp:
            ctl.run(lambda: main(tmp), chooser)
    except (Exception, ctl.StepBudgetExceeded) as e:  # noqa
        return {'error': f'{type(e).__name__}: {e}', 'msgs': msgs, 'notes': notes}
    return {'msgs': msgs, 'notes': notes}


def multi_nontrivial(spec: dict) -> bool:
    """some object is looked at after ANOTHER object has been started / reset with a script, while the first is live"""
    live: set = set()
    for op in spec['ops']:
        k = op[0]
        who = [op[1]] if k in ('start', 'reset', 'run', 'exit', 'close') else ([j for j in op[1]] if k == 'pstart' else [j for j, _ in op[1]])
        publishes = k in ('start', 'pstart') or (k == 'reset' and op[2] is not None) or (k == 'preset' and any(st is not None for _, st in op[1]))
        if publishes and (live - set(who) or len(who) > 1):
            return True
        if k in ('start', 'pstart'):
            live |= set(who)
        if k == 'close':
            live -= set(who)
    return False


def run_multi(chk: common.Check, oracle_fail: list) -> None:
    rng = chk.rng
    specs = []
    for s in multi_corpus():
        specs.append(dict(s, schedule=None))
        specs.append(dict(s, schedule=rng.randrange(10 ** 6)))
    for _ in range(40 if chk.tier == 'quick' else 400):
        s = gen_multi(rng, rng.choice([2, 2, 3]), rng.randint(5, 14))
        s['schedule'] = None if rng.random() < 0.5 else rng.randrange(10 ** 6)
        specs.append(s)
    for s in specs:
        r = multi_object(s)
        chk.cov.case(('multi-object', s), trivial=not multi_nontrivial(s))
        chk.cov.count('kinds', 'multi-object-display')
        for k, v in r['notes'].items():
            chk.cov.count('multi_object', k, v)
        for op in s['ops']:
            chk.cov.count('multi_object_ops', op[0])
        m = list(r['msgs'])
        if 'error' in r:
            m.append(f'scenario failed: {r["error"]}')
        if m:
            oracle_fail.append(({'multi_object': s}, [f'several Nextline objects in one process: {m[0]}'] + m[1:], None))


# ---- several objects whose runs OVERLAP in time: the records of every run ---------------------------------------------------------------
# "Every record and event of a run carries that run's number."  The objects of one process number their runs independently (and number
# the traces / prompts of every run from 1), their runs are in progress at the same time, and the children report trace starts / ends,
# prompts and output with the SAME trace numbers in interleaved orders.  Whatever an object puts on its trace_info / prompt_info /
# stdout / run_info streams must be the records of ITS run: its run number, its own started trace behind every 'finished' record
# (also when the run ends with traces still open), nothing that another object's child reported.

OV_STREAMS = ('run_info', 'trace_info', 'prompt_info', 'stdout')
OV_CTL = ('run', 'exit', 'reset')


class _OvModel:
    """what one object's run has reported so far, and which records each further action has to produce on the object's streams"""

    def __init__(self, i: int, base: int) -> None:
        self.i, self.rn, self.state = i, base, 'initialized'
        self.nout = 0
        self.nreset = 0
        self._new_run()

    def _new_run(self) -> None:
        self.started: list = []
        self.open: list = []
        self.prompt: dict = {}
        self.np = 0
        self.ncall = 0

    def thread_no(self, t: int) -> int:
        return 10 * (self.i + 1) + t

    def ts(self, t: int) -> str:
        """the time the child reports for the start of trace t: distinct per (object, run, trace)"""
        import datetime
        return (datetime.datetime(2024, 1, 1) + datetime.timedelta(seconds=3600 * self.i + 10 * (self.rn % 300) + t)).isoformat()

    def cands(self, rng: Any, base: int) -> list:
        i = self.i
        if self.state == 'initialized':
            return [(['run', i], 6), (['reset', i, None], 1)]
        if self.state == 'finished':
            return [(['reset', i, None], 3), (['reset', i, base + 10 * (self.nreset + 1) + rng.randint(0, 3)], 2)]
        out: list = []
        unused = [t for t in (1, 2, 3, 4) if t not in self.started]
        if unused:
            out.append((['tstart', i, unused[0]], 5))
        if len(unused) > 1:
            out.append((['tstart', i, unused[1]], 1))
        for t in self.open:
            if t in self.prompt:
                out.append((['pend', i, t], 3))
            else:
                out += [(['tend', i, t], 2), (['prompt', i, t], 2)]
            out.append((['out', i, t], 1))
        out += [(['exit', i, 'ok'], 1), (['exit', i, 'kill'], 1)]
        return out

    def apply(self, act: list) -> dict:
        """advance; returns {stream: [expected record, ...]} (+ 'unordered': True when the order within trace_info is not determined)"""
        k = act[0]
        rn = self.rn
        if k == 'run' and self.state == 'initialized':
            self.state = 'running'
            return {'run_info': [(rn, 'running')]}
        if k == 'reset' and self.state in ('initialized', 'finished'):
            self.rn = rn + 1 if act[2] is None else act[2]
            self.nreset += 1
            self.state = 'initialized'
            self._new_run()
            return {'run_info': [(self.rn, 'initialized')]}
        if self.state != 'running':
            raise ValueError(f'{act!r} in state {self.state}')
        if k == 'exit':
            left = [(rn, 'finished', t, self.thread_no(t), self.ts(t)) for t in self.open]
            self.state = 'finished'
            self.open = []
            self.prompt = {}
            return {'run_info': [(rn, 'finished')], 'trace_info': left, 'unordered': True}
        t = act[2]
        if k == 'tstart' and t not in self.started:
            self.started.append(t)
            self.open.append(t)
            return {'trace_info': [(rn, 'running', t, self.thread_no(t), self.ts(t))]}
        if t not in self.open:
            raise ValueError(f'{act!r}: trace {t} is not open')
        if k == 'tend' and t not in self.prompt:
            self.open.remove(t)
            return {'trace_info': [(rn, 'finished', t, self.thread_no(t), self.ts(t))]}
        if k == 'prompt' and t not in self.prompt:
            self.np += 1
            self.ncall += 1
            self.prompt[t] = (self.np, self.ncall)
            return {'prompt_info': [(rn, t, self.np, True)]}
        if k == 'pend' and t in self.prompt:
            p, _ = self.prompt.pop(t)
            return {'prompt_info': [(rn, t, p, False)]}
        if k == 'out':
            self.nout += 1
            return {'stdout': [(rn, t, f'{OV_NAMES[self.i]}{rn}:{self.nout}\n')]}
        raise ValueError(f'{act!r} is not possible here')


OV_NAMES = 'ABC'


def gen_overlap(rng, nobj: int, nsteps: int) -> dict:
    """a valid history of `nobj` objects: a list of steps, each step a few actions issued together (an object that is run / reset / whose
    child exits in a step does nothing else in that step).  Run numbers start from different values, or from the same value."""
    bases = [1] * nobj if rng.random() < 0.2 else [1 + 100 * i for i in range(nobj)]
    models = [_OvModel(i, b) for i, b in enumerate(bases)]
    steps: list = []
    for _ in range(nsteps):
        step: list = []
        busy: dict = {}
        for _ in range(rng.choice([1, 1, 2, 2, 3, 4])):
            cand: list = []
            for m in models:
                mode = busy.get(m.i)
                if mode == 'ctl':
                    continue
                for a, w in m.cands(rng, bases[m.i]):
                    if a[0] in OV_CTL and mode == 'emit':
                        continue
                    cand += [a] * w
            if not cand:
                break
            a = rng.choice(cand)
            models[a[1]].apply(a)
            busy[a[1]] = 'ctl' if a[0] in OV_CTL else 'emit'
            step.append(a)
        if step:
            steps.append(step)
    return {'bases': bases, 'steps': steps, 'start_at_once': rng.random() < 0.5}


def overlap_corpus() -> list:
    two = [1, 101]
    return [
        # both runs stop in trace 1; A's trace ends first, then B's
        {'bases': two, 'steps': [[['run', 0]], [['tstart', 0, 1]], [['run', 1]], [['tstart', 1, 1]], [['tend', 0, 1]], [['tend', 1, 1]],
                                 [['exit', 0, 'ok']], [['exit', 1, 'ok']]]},
        # the same with prompts and output, the events of both children arriving together
        {'bases': two, 'steps': [[['run', 0], ['run', 1]], [['tstart', 0, 1], ['tstart', 1, 1]], [['prompt', 0, 1], ['out', 1, 1], ['prompt', 1, 1]],
                                 [['pend', 1, 1], ['pend', 0, 1], ['out', 0, 1]], [['tend', 1, 1], ['tend', 0, 1]], [['exit', 0, 'ok'], ['exit', 1, 'ok']]]},
        # A's run ends (is killed) with its trace still open while B's trace 1 is open
        {'bases': two, 'steps': [[['run', 0]], [['run', 1]], [['tstart', 0, 1]], [['tstart', 1, 1]], [['exit', 0, 'kill']], [['tend', 1, 1]],
                                 [['exit', 1, 'ok']]]},
        # B is reset and run again while A's traces are open
        {'bases': two, 'steps': [[['run', 0]], [['tstart', 0, 1], ['tstart', 0, 2]], [['run', 1]], [['exit', 1, 'ok']], [['reset', 1, None]],
                                 [['tend', 0, 1]], [['run', 1]], [['tstart', 1, 2]], [['tend', 0, 2]], [['exit', 0, 'ok']], [['tend', 1, 2]]]},
        # three objects, all numbering their runs from 1
        {'bases': [1, 1, 1], 'steps': [[['run', 0], ['run', 1], ['run', 2]], [['tstart', 2, 1]], [['tstart', 1, 1]], [['tstart', 0, 1]],
                                       [['tend', 2, 1]], [['exit', 1, 'ok']], [['tend', 0, 1]]]},
        # a reset that restarts the numbering, next to a run in progress
        {'bases': two, 'steps': [[['run', 1]], [['tstart', 1, 1], ['out', 1, 1]], [['run', 0]], [['tstart', 0, 1]], [['exit', 0, 'ok']],
                                 [['reset', 0, 40]], [['run', 0]], [['tstart', 0, 1], ['tend', 1, 1]], [['exit', 1, 'kill']], [['tend', 0, 1]]]},
    ]


def overlap_nontrivial(spec: dict) -> bool:
    """some object's trace t starts while ANOTHER object has a trace with the same number t open"""
    models = [_OvModel(i, b) for i, b in enumerate(spec['bases'])]
    try:
        for step in spec['steps']:
            for a in step:
                if a[0] == 'tstart' and any(a[2] in m.open for m in models if m.i != a[1]):
                    return True
                models[a[1]].apply(a)
    except ValueError:
        pass
    return False


def multi_overlap(spec: dict) -> dict:
    """Drive len(spec['bases']) Nextline objects (simulated children, one event loop; object i numbers its runs from spec['bases'][i])
    through spec['steps'].  The actions of a step are issued together, then the loop runs until it is idle; then every object's streams
    (subscribed once, after start()) are read: what arrived in this step on an object's stream must be exactly the records its own
    actions of this step produce, each carrying the object's current run number.  spec['schedule']: None = FIFO, int = seed of a
    random schedule."""
    import asyncio
    import datetime
    import random
    from .. import fakes, loop as ctl
    from nextline import events as E
    from nextline.spawned import RunResult

    msgs: list = []
    notes: dict = {}

    def note(k: str, n: int = 1) -> None:
        notes[k] = notes.get(k, 0) + n

    def project(stream: str, r: Any) -> tuple:
        if stream == 'run_info':
            return (r.run_no, r.state)
        if stream == 'trace_info':
            return (r.run_no, r.state, r.trace_no, r.thread_no, r.started_at.isoformat() if r.started_at is not None else None)
        if stream == 'prompt_info':
            return (r.run_no, r.trace_no, r.prompt_no, r.open)
        return (r.run_no, r.trace_no, r.text)

    async def main() -> None:
        from nextline import Nextline
        world = fakes.reset_world()
        world.signal_exits = False
        objs: list = []
        for i, base in enumerate(spec['bases']):
            name = OV_NAMES[i]
            stmt = f'{name.lower()} = {i}\n'
            objs.append({'nl': Nextline(stmt, run_no_start_from=base), 'name': name, 'stmt': stmt, 'model': _OvModel(i, base), 'child': None,
                         'recs': {s: [] for s in OV_STREAMS}, 'seen': {s: 0 for s in OV_STREAMS}, 'tasks': [], 'closed': False})
        clock = [0]

        def now() -> datetime.datetime:
            clock[0] += 1
            return datetime.datetime(2024, 6, 1) + datetime.timedelta(seconds=clock[0])

        async def settle_calls(calls: list) -> None:
            await lifecycle.settle()
            pend = [(w, t) for w, t in calls if not t.done()]
            for _, t in pend:
                t.cancel()
            if pend:
                await lifecycle.settle()
                raise RuntimeError(f'{pend[0][0]} did not return')
            for _, t in calls:
                t.result()

        def consume(o: dict, stream: str) -> None:
            nl = o['nl']
            it = {'run_info': nl.subscribe_run_info, 'trace_info': nl.subscribe_trace_info, 'prompt_info': nl.subscribe_prompt_info,
                  'stdout': nl.subscribe_stdout}[stream]()

            async def pump() -> None:
                async for r in it:
                    o['recs'][stream].append(r)
            o['tasks'].append(asyncio.ensure_future(pump()))

        def emit(o: dict, act: list) -> None:
            c, m = o['child'], o['model']
            k, t, rn = act[0], act[2], c.run_arg.run_no
            if k == 'tstart':
                c.emit(E.OnStartTrace(started_at=datetime.datetime.fromisoformat(m.ts(t)), run_no=rn, trace_no=t, thread_no=m.thread_no(t), task_no=None))
            elif k == 'tend':
                c.emit(E.OnEndTrace(ended_at=now(), run_no=rn, trace_no=t))
            elif k == 'prompt':
                p, call = m.prompt[t]
                c.emit(E.OnStartTraceCall(started_at=now(), run_no=rn, trace_no=t, trace_call_no=call, file_name='<string>', line_no=1,
                                          frame_object_id=t, event='line'))
                c.emit(E.OnStartCmdloop(started_at=now(), run_no=rn, trace_no=t, trace_call_no=call))
                c.emit(E.OnStartPrompt(started_at=now(), run_no=rn, trace_no=t, trace_call_no=call, prompt_no=p, prompt_text='(Pdb) ',
                                       file_name='<string>', line_no=1, frame_object_id=t, event='line'))
            elif k == 'pend':
                p, call = o['ending']
                c.emit(E.OnEndPrompt(ended_at=now(), run_no=rn, trace_no=t, trace_call_no=call, prompt_no=p, command='next'))
                c.emit(E.OnEndCmdloop(ended_at=now(), run_no=rn, trace_no=t, trace_call_no=call))
                c.emit(E.OnEndTraceCall(ended_at=now(), run_no=rn, trace_no=t, trace_call_no=call))
            elif k == 'out':
                c.emit(E.OnWriteStdout(written_at=now(), run_no=rn, trace_no=t, text=f'{o["name"]}{m.rn}:{m.nout}\n'))
            else:
                raise ValueError(act)

        def others(o: dict, n: int) -> str:
            who = [x['name'] for x in objs if x is not o and x['model'].rn == n and o['model'].rn != n]
            return f' ({n} is the number of the run of {" and ".join(who)})' if who else ''

        def check(when: str, expected: dict) -> None:
            for o in objs:
                if o['closed']:
                    continue
                name, rn = o['name'], o['model'].rn
                exp = expected.get(o['model'].i, {})
                for s in OV_STREAMS:
                    new = o['recs'][s][o['seen'][s]:]
                    o['seen'][s] = len(o['recs'][s])
                    note(f'records-{s}', len(new))
                    got = [project(s, r) for r in new]
                    for g in got:
                        if g[0] != rn:
                            msgs.append(f"{when}: a record on {name}'s {s} stream carries run number {g[0]}; {name}'s run is number {rn}"
                                        f"{others(o, g[0])}: {g!r}")
                            break
                    want = list(exp.get(s, []))
                    if s == 'prompt_info':
                        # records that are not about a prompt (prompt number -1: "the trace call has ended") are not modelled one by
                        # one; they must be about a trace of this object's run that has had a prompt
                        extra = [g for g in got if g[2] == -1]
                        got = [g for g in got if g[2] != -1]
                        known = {w[1] for w in want} | set(o['model'].started)
                        for g in extra:
                            if g[1] not in known:
                                msgs.append(f"{when}: {name}'s prompt_info stream delivered {g!r}; trace {g[1]} is not a trace of {name}'s run")
                    if s == 'trace_info' and exp.get('unordered'):
                        got, want = sorted(got, key=repr), sorted(want, key=repr)
                    if got != want:
                        msgs.append(f"{when}: {name}'s {s} stream delivered {got!r}; {name}'s run (number {rn}) produced {want!r}"
                                    + (' (run number, state, trace number, thread number, start time)' if s == 'trace_info' else ''))

        async def do_step(k: Any, step: list) -> None:
            when = f'step {k} {step!r}'
            calls: list = []
            exits: list = []
            expected: dict = {}
            n0 = len(world.children)
            for act in step:
                o = objs[act[1]]
                m, nl, name = o['model'], o['nl'], o['name']
                if act[0] == 'pend':
                    o['ending'] = m.prompt.get(act[2])
                exp = m.apply(act)
                e = expected.setdefault(m.i, {})
                for s, v in exp.items():
                    if s == 'unordered':
                        e[s] = True
                    else:
                        e.setdefault(s, []).extend(v)
                if act[0] == 'run':
                    calls.append((f'{name}.run()', asyncio.ensure_future(nl.run())))
                elif act[0] == 'reset':
                    kw = {} if act[2] is None else {'run_no_start_from': act[2]}
                    calls.append((f'{name}.reset()', asyncio.ensure_future(nl.reset(**kw))))
                elif act[0] == 'exit':
                    if act[2] == 'kill':
                        o['child'].exit(None, exitcode=-9)
                    else:
                        o['child'].exit(RunResult(ret=None), exitcode=0)
                    exits.append(o)
                else:
                    emit(o, act)
            await settle_calls(calls)
            for c in world.children[n0:]:
                owner = [o for o in objs if o['stmt'] == c.run_arg.statement]
                if len(owner) != 1:
                    raise RuntimeError(f'a child runs {c.run_arg.statement!r}, which is the script of {len(owner)} objects')
                owner[0]['child'] = c
            for act in step:
                o = objs[act[1]]
                m, nl, name = o['model'], o['nl'], o['name']
                if act[0] == 'run':
                    c = o['child']
                    if c is None or not c.process.alive:
                        raise RuntimeError(f'{name}.run() did not start a child')
                    if c.run_arg.run_no != m.rn or nl.run_no != m.rn:
                        msgs.append(f'{when}: the run of {name} executes as run {c.run_arg.run_no}, run_no is {nl.run_no}; the numbering of {name} '
                                    f'gives {m.rn}')
                elif act[0] == 'reset' and nl.run_no != m.rn:
                    msgs.append(f'{when}: {name}.run_no is {nl.run_no} after the reset; the numbering of {name} gives {m.rn}')
            for o in exits:
                if o['nl'].state != 'finished':
                    raise RuntimeError(f"{o['name']} is {o['nl'].state!r} after its child has exited")
            check(when, expected)

        starts = [(f"{o['name']}.start()", o['nl'].start()) for o in objs]
        if spec.get('start_at_once'):
            await settle_calls([(w, asyncio.ensure_future(c)) for w, c in starts])
        else:
            for w, c in starts:
                await settle_calls([(w, asyncio.ensure_future(c))])
        for o in objs:
            for s in OV_STREAMS:
                consume(o, s)
        await lifecycle.settle()
        check('after start()', {o['model'].i: {'run_info': [(o['model'].rn, 'initialized')]} for o in objs})
        for k, step in enumerate(spec['steps']):
            if len(msgs) >= 6:
                break
            await do_step(k, step)
        left = [['exit', o['model'].i, 'ok'] for o in objs if o['model'].state == 'running']
        if left and len(msgs) < 6:
            await do_step('last (the runs still in progress end)', left)
        # every trace that has started has got exactly one 'running' and one 'finished' record, both its own
        for o in objs:
            per: dict = {}
            for r in o['recs']['trace_info']:
                per.setdefault((r.run_no, r.trace_no, r.thread_no), []).append(r.state)
            for key, states in per.items():
                if states != ['running', 'finished'] and len(msgs) < 6:
                    msgs.append(f"{o['name']}'s trace_info stream: the trace (run {key[0]}, trace {key[1]}, thread {key[2]}) has the records {states!r}; "
                                f"expected ['running', 'finished']")
        for c in world.live():
            c.exit(RunResult(ret=None), exitcode=0)
        await lifecycle.settle()
        for o in objs:
            await asyncio.wait_for(o['nl'].close(), timeout=5)
            o['closed'] = True
        await lifecycle.settle()
        for o in objs:
            for t in o['tasks']:
                if not t.done():
                    note('stream-open-after-close')      # the end of streams at close() is another property's business
                    t.cancel()
        await lifecycle.settle()

    fakes.install()
    sched = spec.get('schedule')
    chooser = ctl.Fifo() if sched is None else ctl.Rand(random.Random(sched))
    try:
        ctl.run(main, chooser)
    except (Exception, ctl.StepBudgetExceeded) as e:  # noqa
        return {'error': f'{type(e).__name__}: {e}', 'msgs': msgs, 'notes': notes}
    return {'msgs': msgs, 'notes': notes}


def run_overlap(chk: common.Check, oracle_fail: list) -> None:
    rng = chk.rng
    specs = []
    for s in overlap_corpus():
        specs.append(dict(s, start_at_once=False, schedule=None))
        specs.append(dict(s, start_at_once=True, schedule=rng.randrange(10 ** 6)))
    for _ in range(60 if chk.tier == 'quick' else 600):
        s = gen_overlap(rng, rng.choice([2, 2, 3]), rng.randint(6, 16))
        s['schedule'] = None if rng.random() < 0.4 else rng.randrange(10 ** 6)
        specs.append(s)
    for s in specs:
        r = multi_overlap(s)
        chk.cov.case(('multi-overlap', s), trivial=not overlap_nontrivial(s))
        chk.cov.count('kinds', 'multi-object-overlapping-runs')
        for k, v in r['notes'].items():
            chk.cov.count('multi_overlap', k, v)
        for step in s['steps']:
            for a in step:
                chk.cov.count('multi_overlap_ops', a[0])
        m = list(r['msgs'])
        if 'error' in r:
            m.append(f'scenario failed: {r["error"]}')
        if m:
            oracle_fail.append(({'multi_overlap': s}, [f'several Nextline objects with overlapping runs: {m[0]}'] + m[1:], None))


def run(chk: common.Check) -> None:
    chk.cov.rule = ('serial histories (as C01) with reset carrying every subset of {statement, run_no_start_from, trace_threads, trace_modules}, '
                    'initial options varied; observables: run_no/run_info/statement publications and the RunArg handed to the simulated child; '
                    'compared with the Lean model; overlapping calls (oracle only); two or three objects in one process and one loop, started / '
                    'reset / run in interleaved orders (serial and at once, FIFO and random schedules), scripts given as str and as path: every '
                    'live object displays (statement, get_source, get_source_line) and executes (RunArg, run info) its own script; two or three objects '
                    'numbering their runs from different (or equal) values whose runs overlap in time, the simulated children reporting trace starts / ends, '
                    'prompts and output with the same trace numbers in interleaved orders (also several at once, runs ending with traces open, resets '
                    'next to runs in progress): every record on an object\'s run_info / trace_info / prompt_info / stdout stream carries that object\'s '
                    'run number and is a record of its own run, every started trace gets exactly its own finished record. Non-trivial: at least one reset with options followed by a run; '
                    'distinct = distinct (options, history, schedule kind).')
    chk.assumptions += ['serial histories (reset ∥ run overlap is known finding F-A2)']
    L = 3 if chk.tier == 'quick' else 4
    scen = _life.gen_serial(chk, L, 2500 if chk.tier == 'quick' else 30000)
    rows = _life.run_serial(chk, scen)
    _life.coverage(chk, rows, lambda r: any(o.startswith('reset') and o != 'reset - - - -' for o in r['ops']) and any(x.count('cs:') for x in r['impl']))
    chk.cov.exhaustive = True
    chk.cov.extra['exhaustive_scope'] = f'all serial histories of length ≤ {L} over {_life.ALPHABET}'
    oracle_fail = []
    for r in rows:
        if r['error']:
            oracle_fail.append(({'init': r['init'], 'ops': r['ops']}, [f'scenario failed: {r["error"]}'], None))
            continue
        m = oracle_serial(r)
        if m:
            oracle_fail.append(({'init': r['init'], 'ops': r['ops'], 'schedule': r['schedule'], 'implementation': r['impl']}, m, None))
    dis = _life.compare(rows, KINDS)
    for ff in (False,):
        for d in (0, 1, 2):
            r = overlap_reset_run(d, ff)
            chk.cov.case(('overlap-reset-run', d, ff))
            chk.cov.count('kinds', 'overlap-reset-run-clean-offsets')
            m = []
            if 'error' in r:
                m.append(f'scenario failed: {r["error"]}')
            else:
                if r['executed'] is not None and r['executed'] != r['displayed']:
                    m.append(f"reset(statement=NEW) and run() {d} scheduler steps apart: the script on display is {r['displayed']}, the script executed is {r['executed']}")
                if r['executed'] is not None and r['run_no'] != r['run_no_displayed']:
                    m.append(f"reset(run_no_start_from=100) and run() {d} steps apart: the run executes as number {r['run_no']}, the number on display is {r['run_no_displayed']}")
            if m:
                oracle_fail.append(({'overlap': r}, m, None))
    run_multi(chk, oracle_fail)
    run_overlap(chk, oracle_fail)
    # real spawn children, two runs of one object, the second after reset(run_no_start_from=10): every record of the second run —
    # run info, trace info, prompt info, captured stdout — carries the number published for it
    script = 'import threading\ndef w():\n    print("in thread")\nt = threading.Thread(target=w)\nt.start()\nt.join()\nprint("in main")\n'
    rs = [{'statement': script, 'trace_threads': True, 'policy': {'kind': 'all', 'command': 'next'}, 'timeout': 40, 'second_run': True,
           'second_reset': {'run_no_start_from': 10}, 'second_timeout': 30},
          {'statement': script, 'trace_threads': True, 'policy': {'kind': 'all', 'command': 'next'}, 'timeout': 40, 'second_run': True, 'second_timeout': 30}]
    for r in common.real_runs(rs, jobs=2, hard_timeout=120):
        sp, rec = r['spec'], r['rec']
        want = 10 if sp.get('second_reset') else 2
        chk.cov.case(('real-two-runs', want))
        chk.cov.count('kinds', 'real-child-two-runs')
        m = []
        if rec is None or rec.get('second_finished') is not True:
            m.append(f'two runs of one object did not finish: {(rec or {}).get("errors")}')
        else:
            sr = rec['second_records']
            if sr['run_no'] != [want]:
                m.append(f'run numbers published for the second run: {sr["run_no"]}, expected [{want}]')
            nums = {'run_info': sorted({x['run_no'] for x in sr['run_info']}), 'trace_info': sorted({x['run_no'] for x in sr['trace_info']}),
                    'prompt_info': sorted({x['run_no'] for x in sr['prompt_info']}), 'stdout': sorted({x[2] for x in sr['stdout']})}
            for k, v in nums.items():
                if v != [want]:
                    m.append(f'the {k} records of the run published as number {want} carry run numbers {v}')
        if m:
            oracle_fail.append(({'real_run': sp}, m, None))
    _life.finish(chk, 'C14', oracle_fail, dis, 'run numbers, run records, statement, child arguments')
