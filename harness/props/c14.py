"""C14 — runs are numbered uniquely and execute the script that is on display.  Model A."""
from __future__ import annotations

from typing import Any

from .. import common, lifecycle
from . import _life

KINDS = {'prn', 'pri', 'pst', 'cs', 'ret', 'blocked'}


def oracle_serial(r: dict) -> list[str]:
    msgs = []
    stmt, nxt, tt, tm = r['init']
    nxt = int(nxt)
    displayed = None
    last_rn = None
    for op, rep in zip(r['ops'], r['impl']):
        toks = rep.split()
        ok = any(t.startswith('ret:') and t.endswith(':ok') for t in toks)
        w = op.split()
        if w[0] == 'reset' and any(t == 'ret:reset:ok' for t in toks):
            if w[1] != '-':
                stmt = int(w[1])
            if w[2] != '-':
                nxt = int(w[2])
            if w[3] != '-':
                tt = w[3] == '1'
            if w[4] != '-':
                tm = w[4] == '1'
        if w[0] == 'reset' and any(t == 'ret:reset:MachineError' for t in toks):
            if any(t.startswith(('prn:', 'pst:', 'pri:')) for t in toks):
                msgs.append(f'refused reset had effects: {rep}')
        # publications of different topics within one operation are not ordered relative to each other:
        # process statement, then run number, then run records, then child starts
        order = {'pst': 0, 'prn': 1, 'pri': 2, 'cs:': 3}
        rn_before = last_rn
        for t in sorted(toks, key=lambda t: order.get(t[:3], 9)):
            if t.startswith('pst:'):
                displayed = t[4:]
            if t.startswith('prn:'):
                n = int(t[4:])
                if n != nxt:
                    msgs.append(f'run number {n} handed out, expected {nxt}')
                last_rn = n
                nxt = n + 1
            if t.startswith('pri:'):
                n = int(t[4:].split('/')[0])
                if last_rn is not None and n != last_rn and not (n == rn_before and t.endswith('/finished')):
                    msgs.append(f'run record carries run number {n}, the current run is {last_rn}')
            if t.startswith('cs:'):
                rn, st, a, b = t[3:].split('/')
                if displayed is not None and st != displayed:
                    msgs.append(f'the child executes statement {st} while statement {displayed} is on display')
                if st != str(stmt) or (a == '1') != bool(tt) or (b == '1') != bool(tm):
                    msgs.append(f'the child was started with (stmt {st}, trace_threads {a}, trace_modules {b}); the last fully applied options are '
                                f'({stmt}, {int(bool(tt))}, {int(bool(tm))})')
                if last_rn is not None and int(rn) != last_rn:
                    msgs.append(f'the child runs as run {rn}, the published run number is {last_rn}')
    return msgs


def overlap_reset_run(d: int, from_finished: bool) -> dict:
    """reset(statement=NEW, run_no_start_from=100) from one task and run() from another, d scheduler steps later, stock order.  At
    these offsets the unchanged code lets exactly one of the two win cleanly (the transition of the other is cancelled before it has
    changed anything); later offsets are open finding F-A2 and are not run here."""
    import asyncio
    from .. import fakes, loop as ctl
    from nextline.spawned import RunResult

    async def main() -> dict:
        sc = lifecycle.Scenario(0, 1, False, False)
        await sc.setup()
        await sc.op('start')
        if from_finished:
            await sc.op('run')
            await sc.op('exit 5')
        nl = sc.nl
        n0 = len(sc.world.children)
        t1 = asyncio.ensure_future(nl.reset(statement=lifecycle.stmt_text(7), run_no_start_from=100))
        for _ in range(d):
            await asyncio.sleep(0)
        t2 = asyncio.ensure_future(nl.run())
        res = await asyncio.gather(t1, t2, return_exceptions=True)
        await lifecycle.settle()
        out: dict = {'d': d, 'from_finished': from_finished, 'results': [type(r).__name__ if isinstance(r, BaseException) else 'ok' for r in res],
                     'state': nl.state, 'displayed': lifecycle.stmt_id(nl.statement), 'executed': None, 'run_no': None}
        new = sc.world.children[n0:]
        if new:
            ra = new[-1].run_arg
            out['executed'] = lifecycle.stmt_id(ra.statement)
            out['run_no'] = ra.run_no
        for c in sc.world.live():
            c.exit(RunResult(ret=None), exitcode=0)
        await lifecycle.settle()
        # afterwards a plain reset() + run(): the numbering goes on from what was displayed, whichever call won
        out['run_no_displayed'] = nl.run_no
        await nl.close()
        return out
    fakes.install()
    try:
        return ctl.run(main, ctl.Fifo())
    except (Exception, ctl.StepBudgetExceeded) as e:  # noqa
        return {'d': d, 'from_finished': from_finished, 'error': f'{type(e).__name__}: {e}'}


# ---- several Nextline objects in one process ------------------------------------------------------------------------------------------
# The property is stated per object: what an object puts on display (statement, get_source(), get_source_line()) is the script ITS run
# executes.  A server hosts several objects in one process and one event loop; whatever one object is started / reset with must not
# change what another one displays or executes.

MULTI_LIVE = ('initialized', 'running', 'finished')


def _norm(lines: list) -> list:
    lines = list(lines)
    while lines and lines[-1] == '':
        lines.pop()
    return lines


def multi_stmt(rng, tag: str) -> tuple:
    """a script of 1..4 lines (no trailing blanks), unique by its tag; ('s', text) = given as str, ('p', text) = given as a path"""
    n = rng.randint(1, 4)
    text = '\n'.join(f'{tag}_{i} = {rng.randint(0, 99)}' for i in range(n)) + rng.choice(['', '\n'])
    return ('p' if rng.random() < 0.15 else 's', text)


def gen_multi(rng, nobj: int, nops: int) -> dict:
    """a valid serial history over `nobj` objects; only operations the state machine accepts are generated (refused calls are the
    business of the single-object histories above)"""
    names = 'ABC'
    stmts = [multi_stmt(rng, f'{names[i].lower()}0') for i in range(nobj)]
    state = ['created'] * nobj
    nreset = [0] * nobj
    ops: list = []
    for _ in range(nops):
        created = [i for i in range(nobj) if state[i] == 'created']
        cand: list = []
        for i in range(nobj):
            st = state[i]
            if st == 'created':
                cand += [('start', i)] * 4
            elif st == 'initialized':
                cand += [('run', i)] * 2 + [('reset', i)] * 3 + [('close', i)]
            elif st == 'running':
                cand += [('exit', i)] * 2
            elif st == 'finished':
                cand += [('reset', i)] * 4 + [('close', i)]
        if len(created) >= 2:
            cand += [('pstart', None)] * 3
        resettable = [i for i in range(nobj) if state[i] in ('initialized', 'finished')]
        if len(resettable) >= 2:
            cand += [('preset', None)] * 3
        if not cand:
            break
        kind, i = rng.choice(cand)

        def new_stmt(i: int):
            nreset[i] += 1
            return multi_stmt(rng, f'{names[i].lower()}{nreset[i]}')
        if kind == 'start':
            ops.append(['start', i]); state[i] = 'initialized'
        elif kind == 'pstart':
            who = rng.sample(created, rng.randint(2, len(created)))
            ops.append(['pstart', who])
            for j in who:
                state[j] = 'initialized'
        elif kind == 'reset':
            ops.append(['reset', i, new_stmt(i) if rng.random() < 0.65 else None]); state[i] = 'initialized'
        elif kind == 'preset':
            who = rng.sample(resettable, rng.randint(2, len(resettable)))
            ops.append(['preset', [[j, new_stmt(j) if rng.random() < 0.8 else None] for j in who]])
            for j in who:
                state[j] = 'initialized'
        elif kind == 'run':
            ops.append(['run', i]); state[i] = 'running'
        elif kind == 'exit':
            ops.append(['exit', i]); state[i] = 'finished'
        elif kind == 'close':
            ops.append(['close', i]); state[i] = 'closed'
    return {'stmts': stmts, 'ops': ops}


def multi_corpus() -> list:
    a, b, c = ('s', 'a = 1\nprint(a)'), ('s', 'import os\nb = 2\nprint(b)\nprint(b, b)\n'), ('s', 'c = 3\n')
    b2, a2 = ('s', 'bb = 22\nprint(bb)\n'), ('s', 'aa = 11')
    pa, pb = ('p', 'pa = 1\nprint(pa)\n'), ('p', 'pb = 2\npb += 1\nprint(pb)\n')
    return [
        {'stmts': [a, b], 'ops': [['start', 0], ['start', 1], ['run', 0], ['exit', 0], ['run', 1], ['exit', 1]]},
        {'stmts': [a, b], 'ops': [['start', 0], ['start', 1], ['reset', 1, b2], ['run', 0], ['run', 1], ['exit', 0], ['exit', 1]]},
        {'stmts': [a, b], 'ops': [['start', 0], ['run', 0], ['start', 1], ['exit', 0], ['reset', 0, None], ['reset', 1, b2], ['run', 0], ['run', 1],
                                  ['exit', 1], ['close', 1], ['exit', 0], ['reset', 0, None], ['run', 0]]},
        {'stmts': [a, b, c], 'ops': [['pstart', [0, 1, 2]], ['run', 1], ['preset', [[0, a2], [2, None]]], ['run', 0], ['run', 2], ['exit', 1],
                                     ['reset', 1, b2], ['exit', 0], ['exit', 2]]},
        {'stmts': [a, b], 'ops': [['start', 1], ['start', 0], ['close', 0], ['run', 1], ['exit', 1], ['reset', 1, None], ['run', 1]]},
        {'stmts': [a, pb], 'ops': [['start', 0], ['start', 1], ['run', 0], ['run', 1], ['exit', 0], ['exit', 1], ['reset', 1, b2], ['reset', 0, pa],
                                   ['run', 0], ['run', 1]]},
        {'stmts': [pa, pb], 'ops': [['pstart', [0, 1]], ['run', 1], ['run', 0], ['exit', 1], ['reset', 1, b], ['exit', 0]]},
    ]


def multi_object(spec: dict) -> dict:
    """Drive several Nextline objects (simulated children, one event loop) through spec['ops']; after every operation look at every live
    object: its statement, get_source() / get_source(<script file name>) / get_source_line(n) must be its own current script, and the
    RunArg handed to the child of its run and the run info must carry that same script.  spec['schedule']: None = FIFO, int = seed of a
    random schedule."""
    import asyncio
    import random
    import tempfile
    from pathlib import Path
    from .. import fakes, loop as ctl
    from nextline.spawned import RunResult

    msgs: list = []
    notes: dict = {}
    names = 'ABC'

    def note(k: str) -> None:
        notes[k] = notes.get(k, 0) + 1

    async def main(tmp: str) -> None:
        from nextline import Nextline
        world = fakes.reset_world()
        world.signal_exits = False
        nfile = [0]

        def mk(st: Any) -> Any:
            kind, text = st
            if kind == 's':
                return text
            p = Path(tmp) / f'script_{nfile[0]}.py'
            nfile[0] += 1
            p.write_text(text)
            return p
        objs: list = []
        for i, st in enumerate(spec['stmts']):
            s = mk(st)
            objs.append({'nl': Nextline(s, run_no_start_from=1 + 100 * i), 'stmt': s, 'text': st[1], 'state': 'created', 'child': None,
                         'name': names[i]})

        def look(when: str) -> None:
            for o in objs:
                if o['state'] not in MULTI_LIVE:
                    continue
                nl, name, want = o['nl'], o['name'], _norm(o['text'].split('\n'))
                is_path = not isinstance(o['stmt'], str)
                note('looks')
                try:
                    st = nl.statement
                    fn = nl.get('script_file_name')
                except Exception as e:  # noqa
                    msgs.append(f'{when}: {name}.statement / script file name not readable: {type(e).__name__}: {e}')
                    continue
                if st != o['stmt']:
                    msgs.append(f"{when}: {name}.statement is {st!r}; {name}'s script is {o['stmt']!r}")
                    continue
                c = o['child']
                if o['state'] == 'running' and c is not None and c.run_arg.statement != st:
                    msgs.append(f'{when}: {name} is running {c.run_arg.statement!r} while {name}.statement is {st!r}')
                    continue
                views = [((), 'get_source()'), ((fn,), f'get_source({fn!r})')]
                if is_path:
                    views.append(((str(o['stmt']),), 'get_source(<path of the script>)'))
                for args, label in views:
                    try:
                        shown = nl.get_source(*args)
                    except Exception as e:  # noqa
                        if is_path and args != (str(o['stmt']),):
                            note('path-script-not-displayable')      # a script given as a path has no text to show under '<string>'
                            continue
                        msgs.append(f'{when}: {name}.{label} raised {type(e).__name__}: {e}')
                        break
                    if is_path and not _norm(shown) and args != (str(o['stmt']),):
                        note('path-script-not-displayable')      # nothing on display is not a wrong script on display
                        continue
                    if _norm(shown) != want:
                        msgs.append(f"{when}: {name}.{label} shows {list(shown)!r}; {name}'s script"
                                    f"{' (the one its run is executing)' if o['state'] == 'running' else ''} is {o['text']!r}")
                        break
                    bad = None
                    for n in range(0, len(want) + 2):
                        line = nl.get_source_line(n, *args)
                        exp = want[n - 1] if 1 <= n <= len(want) else ''
                        if line != exp:
                            bad = (n, line, exp)
                            break
                    if bad:
                        msgs.append(f"{when}: {name}.get_source_line({bad[0]}{''.join(', ' + repr(a) for a in args)}) shows {bad[1]!r}; "
                                    f"line {bad[0]} of {name}'s script is {bad[2]!r}")
                        break

        async def call(what: str, *coros: Any) -> None:
            ts = [asyncio.ensure_future(c) for c in coros]
            await lifecycle.settle()
            pend = [t for t in ts if not t.done()]
            for t in pend:
                t.cancel()
            if pend:
                await lifecycle.settle()
                raise RuntimeError(f'{what} did not return')
            for t in ts:
                t.result()

        def reset_kw(o: dict, st: Any) -> dict:
            if st is None:
                return {}
            s = mk(st)
            o['pending'] = (s, st[1])
            return {'statement': s}

        def reset_done(o: dict) -> None:
            if o.get('pending'):
                o['stmt'], o['text'] = o.pop('pending')
            o['state'] = 'initialized'

        for k, op in enumerate(spec['ops']):
            kind = op[0]
            when = f'after operation {k} {op!r}'
            if kind == 'start':
                o = objs[op[1]]
                await call(f"{o['name']}.start()", o['nl'].start())
                o['state'] = 'initialized'
            elif kind == 'pstart':
                await call('start() of several objects at once', *[objs[j]['nl'].start() for j in op[1]])
                for j in op[1]:
                    objs[j]['state'] = 'initialized'
            elif kind == 'reset':
                o = objs[op[1]]
                await call(f"{o['name']}.reset()", o['nl'].reset(**reset_kw(o, op[2])))
                reset_done(o)
            elif kind == 'preset':
                await call('reset() of several objects at once', *[objs[j]['nl'].reset(**reset_kw(objs[j], st)) for j, st in op[1]])
                for j, _ in op[1]:
                    reset_done(objs[j])
            elif kind == 'run':
                o = objs[op[1]]
                name = o['name']
                n0 = len(world.children)
                look(f'before operation {k} {op!r}')
                await call(f'{name}.run()', o['nl'].run())
                new = world.children[n0:]
                if len(new) != 1:
                    raise RuntimeError(f'{name}.run() started {len(new)} children')
                o['child'], o['state'] = new[0], 'running'
                ra = new[0].run_arg
                if ra.statement != o['stmt']:
                    msgs.append(f"{when}: the run of {name} executes {ra.statement!r}; {name}'s script on display was {o['stmt']!r}")
                ri = o['nl'].get('run_info')
                if ri.run_no != ra.run_no or o['nl'].run_no != ra.run_no:
                    msgs.append(f'{when}: the run of {name} executes as run {ra.run_no}; run info says {ri.run_no}, run_no {o["nl"].run_no}')
                if isinstance(o['stmt'], str) and ri.script != o['stmt']:
                    msgs.append(f"{when}: the run info of {name}'s run reports the script {ri.script!r}; the run executes {ra.statement!r}")
            elif kind == 'exit':
                o = objs[op[1]]
                o['child'].exit(RunResult(ret=None), exitcode=0)
                await lifecycle.settle()
                if o['nl'].state != 'finished':
                    raise RuntimeError(f"{o['name']} is {o['nl'].state!r} after its child has exited")
                o['state'] = 'finished'
            elif kind == 'close':
                o = objs[op[1]]
                await call(f"{o['name']}.close()", o['nl'].close())
                o['state'] = 'closed'
            else:
                raise ValueError(op)
            look(when)
            if len(msgs) >= 6:
                break
        for o in objs:
            if o['state'] == 'running':
                o['child'].exit(RunResult(ret=None), exitcode=0)
        await lifecycle.settle()
        for o in objs:
            if o['state'] in MULTI_LIVE:
                await asyncio.wait_for(o['nl'].close(), timeout=5)
        await lifecycle.settle()

    fakes.install()
    sched = spec.get('schedule')
    chooser = ctl.Fifo() if sched is None else ctl.Rand(random.Random(sched))
    try:
        with tempfile.TemporaryDirectory(prefix='nlv-c14-') as tmp:
            ctl.run(lambda: main(tmp), chooser)
    except (Exception, ctl.StepBudgetExceeded) as e:  # noqa
        return {'error': f'{type(e).__name__}: {e}', 'msgs': msgs, 'notes': notes}
    return {'msgs': msgs, 'notes': notes}


def multi_nontrivial(spec: dict) -> bool:
    """some object is looked at after ANOTHER object has been started / reset with a script, while the first is live"""
    live: set = set()
    for op in spec['ops']:
        k = op[0]
        who = [op[1]] if k in ('start', 'reset', 'run', 'exit', 'close') else ([j for j in op[1]] if k == 'pstart' else [j for j, _ in op[1]])
        publishes = k in ('start', 'pstart') or (k == 'reset' and op[2] is not None) or (k == 'preset' and any(st is not None for _, st in op[1]))
        if publishes and (live - set(who) or len(who) > 1):
            return True
        if k in ('start', 'pstart'):
            live |= set(who)
        if k == 'close':
            live -= set(who)
    return False


def run_multi(chk: common.Check, oracle_fail: list) -> None:
    rng = chk.rng
    specs = []
    for s in multi_corpus():
        specs.append(dict(s, schedule=None))
        specs.append(dict(s, schedule=rng.randrange(10 ** 6)))
    for _ in range(40 if chk.tier == 'quick' else 400):
        s = gen_multi(rng, rng.choice([2, 2, 3]), rng.randint(5, 14))
        s['schedule'] = None if rng.random() < 0.5 else rng.randrange(10 ** 6)
        specs.append(s)
    for s in specs:
        r = multi_object(s)
        chk.cov.case(('multi-object', s), trivial=not multi_nontrivial(s))
        chk.cov.count('kinds', 'multi-object-display')
        for k, v in r['notes'].items():
            chk.cov.count('multi_object', k, v)
        for op in s['ops']:
            chk.cov.count('multi_object_ops', op[0])
        m = list(r['msgs'])
        if 'error' in r:
            m.append(f'scenario failed: {r["error"]}')
        if m:
            oracle_fail.append(({'multi_object': s}, [f'several Nextline objects in one process: {m[0]}'] + m[1:], None))


def run(chk: common.Check) -> None:
    chk.cov.rule = ('serial histories (as C01) with reset carrying every subset of {statement, run_no_start_from, trace_threads, trace_modules}, '
                    'initial options varied; observables: run_no/run_info/statement publications and the RunArg handed to the simulated child; '
                    'compared with the Lean model; overlapping calls (oracle only); two or three objects in one process and one loop, started / '
                    'reset / run in interleaved orders (serial and at once, FIFO and random schedules), scripts given as str and as path: every '
                    'live object displays (statement, get_source, get_source_line) and executes (RunArg, run info) its own script. Non-trivial: at least one reset with options followed by a run; '
                    'distinct = distinct (options, history, schedule kind).')
    chk.assumptions += ['serial histories (reset ∥ run overlap is known finding F-A2)']
    L = 3 if chk.tier == 'quick' else 4
    scen = _life.gen_serial(chk, L, 2500 if chk.tier == 'quick' else 30000)
    rows = _life.run_serial(chk, scen)
    _life.coverage(chk, rows, lambda r: any(o.startswith('reset') and o != 'reset - - - -' for o in r['ops']) and any(x.count('cs:') for x in r['impl']))
    chk.cov.exhaustive = True
    chk.cov.extra['exhaustive_scope'] = f'all serial histories of length ≤ {L} over {_life.ALPHABET}'
    oracle_fail = []
    for r in rows:
        if r['error']:
            oracle_fail.append(({'init': r['init'], 'ops': r['ops']}, [f'scenario failed: {r["error"]}'], None))
            continue
        m = oracle_serial(r)
        if m:
            oracle_fail.append(({'init': r['init'], 'ops': r['ops'], 'schedule': r['schedule'], 'implementation': r['impl']}, m, None))
    dis = _life.compare(rows, KINDS)
    for ff in (False,):
        for d in (0, 1, 2):
            r = overlap_reset_run(d, ff)
            chk.cov.case(('overlap-reset-run', d, ff))
            chk.cov.count('kinds', 'overlap-reset-run-clean-offsets')
            m = []
            if 'error' in r:
                m.append(f'scenario failed: {r["error"]}')
            else:
                if r['executed'] is not None and r['executed'] != r['displayed']:
                    m.append(f"reset(statement=NEW) and run() {d} scheduler steps apart: the script on display is {r['displayed']}, the script executed is {r['executed']}")
                if r['executed'] is not None and r['run_no'] != r['run_no_displayed']:
                    m.append(f"reset(run_no_start_from=100) and run() {d} steps apart: the run executes as number {r['run_no']}, the number on display is {r['run_no_displayed']}")
            if m:
                oracle_fail.append(({'overlap': r}, m, None))
    run_multi(chk, oracle_fail)
    # real spawn children, two runs of one object, the second after reset(run_no_start_from=10): every record of the second run —
    # run info, trace info, prompt info, captured stdout — carries the number published for it
    script = 'import threading\ndef w():\n    print("in thread")\nt = threading.Thread(target=w)\nt.start()\nt.join()\nprint("in main")\n'
    rs = [{'statement': script, 'trace_threads': True, 'policy': {'kind': 'all', 'command': 'next'}, 'timeout': 40, 'second_run': True,
           'second_reset': {'run_no_start_from': 10}, 'second_timeout': 30},
          {'statement': script, 'trace_threads': True, 'policy': {'kind': 'all', 'command': 'next'}, 'timeout': 40, 'second_run': True, 'second_timeout': 30}]
    for r in common.real_runs(rs, jobs=2, hard_timeout=120):
        sp, rec = r['spec'], r['rec']
        want = 10 if sp.get('second_reset') else 2
        chk.cov.case(('real-two-runs', want))
        chk.cov.count('kinds', 'real-child-two-runs')
        m = []
        if rec is None or rec.get('second_finished') is not True:
            m.append(f'two runs of one object did not finish: {(rec or {}).get("errors")}')
        else:
            sr = rec['second_records']
            if sr['run_no'] != [want]:
                m.append(f'run numbers published for the second run: {sr["run_no"]}, expected [{want}]')
            nums = {'run_info': sorted({x['run_no'] for x in sr['run_info']}), 'trace_info': sorted({x['run_no'] for x in sr['trace_info']}),
                    'prompt_info': sorted({x['run_no'] for x in sr['prompt_info']}), 'stdout': sorted({x[2] for x in sr['stdout']})}
            for k, v in nums.items():
                if v != [want]:
                    m.append(f'the {k} records of the run published as number {want} carry run numbers {v}')
        if m:
            oracle_fail.append(({'real_run': sp}, m, None))
    _life.finish(chk, 'C14', oracle_fail, dis, 'run numbers, run records, statement, child arguments')
