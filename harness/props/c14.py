"""C14 — runs are numbered uniquely and execute the script that is on display.  Model A."""
from __future__ import annotations

from .. import common, lifecycle
from . import _life

KINDS = {'prn', 'pri', 'pst', 'cs', 'ret', 'blocked'}


def oracle_serial(r: dict) -> list[str]:
    msgs = []
    stmt, nxt, tt, tm = r['init']
    nxt = int(nxt)
    displayed = None
    last_rn = None
    for op, rep in zip(r['ops'], r['impl']):
        toks = rep.split()
        ok = any(t.startswith('ret:') and t.endswith(':ok') for t in toks)
        w = op.split()
        if w[0] == 'reset' and any(t == 'ret:reset:ok' for t in toks):
            if w[1] != '-':
                stmt = int(w[1])
            if w[2] != '-':
                nxt = int(w[2])
            if w[3] != '-':
                tt = w[3] == '1'
            if w[4] != '-':
                tm = w[4] == '1'
        if w[0] == 'reset' and any(t == 'ret:reset:MachineError' for t in toks):
            if any(t.startswith(('prn:', 'pst:', 'pri:')) for t in toks):
                msgs.append(f'refused reset had effects: {rep}')
        # publications of different topics within one operation are not ordered relative to each other:
        # process statement, then run number, then run records, then child starts
        order = {'pst': 0, 'prn': 1, 'pri': 2, 'cs:': 3}
        rn_before = last_rn
        for t in sorted(toks, key=lambda t: order.get(t[:3], 9)):
            if t.startswith('pst:'):
                displayed = t[4:]
            if t.startswith('prn:'):
                n = int(t[4:])
                if n != nxt:
                    msgs.append(f'run number {n} handed out, expected {nxt}')
                last_rn = n
                nxt = n + 1
            if t.startswith('pri:'):
                n = int(t[4:].split('/')[0])
                if last_rn is not None and n != last_rn and not (n == rn_before and t.endswith('/finished')):
                    msgs.append(f'run record carries run number {n}, the current run is {last_rn}')
            if t.startswith('cs:'):
                rn, st, a, b = t[3:].split('/')
                if displayed is not None and st != displayed:
                    msgs.append(f'the child executes statement {st} while statement {displayed} is on display')
                if st != str(stmt) or (a == '1') != bool(tt) or (b == '1') != bool(tm):
                    msgs.append(f'the child was started with (stmt {st}, trace_threads {a}, trace_modules {b}); the last fully applied options are '
                                f'({stmt}, {int(bool(tt))}, {int(bool(tm))})')
                if last_rn is not None and int(rn) != last_rn:
                    msgs.append(f'the child runs as run {rn}, the published run number is {last_rn}')
    return msgs


def overlap_reset_run(d: int, from_finished: bool) -> dict:
    """reset(statement=NEW, run_no_start_from=100) from one task and run() from another, d scheduler steps later, stock order.  At
    these offsets the unchanged code lets exactly one of the two win cleanly (the transition of the other is cancelled before it has
    changed anything); later offsets are open finding F-A2 and are not run here."""
    import asyncio
    from .. import fakes, loop as ctl
    from nextline.spawned import RunResult

    async def main() -> dict:
        sc = lifecycle.Scenario(0, 1, False, False)
        await sc.setup()
        await sc.op('start')
        if from_finished:
            await sc.op('run')
            await sc.op('exit 5')
        nl = sc.nl
        n0 = len(sc.world.children)
        t1 = asyncio.ensure_future(nl.reset(statement=lifecycle.stmt_text(7), run_no_start_from=100))
        for _ in range(d):
            await asyncio.sleep(0)
        t2 = asyncio.ensure_future(nl.run())
        res = await asyncio.gather(t1, t2, return_exceptions=True)
        await lifecycle.settle()
        out: dict = {'d': d, 'from_finished': from_finished, 'results': [type(r).__name__ if isinstance(r, BaseException) else 'ok' for r in res],
                     'state': nl.state, 'displayed': lifecycle.stmt_id(nl.statement), 'executed': None, 'run_no': None}
        new = sc.world.children[n0:]
        if new:
            ra = new[-1].run_arg
            out['executed'] = lifecycle.stmt_id(ra.statement)
            out['run_no'] = ra.run_no
        for c in sc.world.live():
            c.exit(RunResult(ret=None), exitcode=0)
        await lifecycle.settle()
        # afterwards a plain reset() + run(): the numbering goes on from what was displayed, whichever call won
        out['run_no_displayed'] = nl.run_no
        await nl.close()
        return out
    fakes.install()
    try:
        return ctl.run(main, ctl.Fifo())
    except (Exception, ctl.StepBudgetExceeded) as e:  # noqa
        return {'d': d, 'from_finished': from_finished, 'error': f'{type(e).__name__}: {e}'}


def run(chk: common.Check) -> None:
    chk.cov.rule = ('serial histories (as C01) with reset carrying every subset of {statement, run_no_start_from, trace_threads, trace_modules}, '
                    'initial options varied; observables: run_no/run_info/statement publications and the RunArg handed to the simulated child; '
                    'compared with the Lean model; overlapping calls (oracle only). Non-trivial: at least one reset with options followed by a run; '
                    'distinct = distinct (options, history, schedule kind).')
    chk.assumptions += ['serial histories (reset ∥ run overlap is known finding F-A2)']
    L = 3 if chk.tier == 'quick' else 4
    scen = _life.gen_serial(chk, L, 2500 if chk.tier == 'quick' else 30000)
    rows = _life.run_serial(chk, scen)
    _life.coverage(chk, rows, lambda r: any(o.startswith('reset') and o != 'reset - - - -' for o in r['ops']) and any(x.count('cs:') for x in r['impl']))
    chk.cov.exhaustive = True
    chk.cov.extra['exhaustive_scope'] = f'all serial histories of length ≤ {L} over {_life.ALPHABET}'
    oracle_fail = []
    for r in rows:
        if r['error']:
            oracle_fail.append(({'init': r['init'], 'ops': r['ops']}, [f'scenario failed: {r["error"]}'], None))
            continue
        m = oracle_serial(r)
        if m:
            oracle_fail.append(({'init': r['init'], 'ops': r['ops'], 'schedule': r['schedule'], 'implementation': r['impl']}, m, None))
    dis = _life.compare(rows, KINDS)
    for ff in (False,):
        for d in (0, 1, 2):
            r = overlap_reset_run(d, ff)
            chk.cov.case(('overlap-reset-run', d, ff))
            chk.cov.count('kinds', 'overlap-reset-run-clean-offsets')
            m = []
            if 'error' in r:
                m.append(f'scenario failed: {r["error"]}')
            else:
                if r['executed'] is not None and r['executed'] != r['displayed']:
                    m.append(f"reset(statement=NEW) and run() {d} scheduler steps apart: the script on display is {r['displayed']}, the script executed is {r['executed']}")
                if r['executed'] is not None and r['run_no'] != r['run_no_displayed']:
                    m.append(f"reset(run_no_start_from=100) and run() {d} steps apart: the run executes as number {r['run_no']}, the number on display is {r['run_no_displayed']}")
            if m:
                oracle_fail.append(({'overlap': r}, m, None))
    # real spawn children, two runs of one object, the second after reset(run_no_start_from=10): every record of the second run —
    # run info, trace info, prompt info, captured stdout — carries the number published for it
    script = 'import threading\ndef w():\n    print("in thread")\nt = threading.Thread(target=w)\nt.start()\nt.join()\nprint("in main")\n'
    rs = [{'statement': script, 'trace_threads': True, 'policy': {'kind': 'all', 'command': 'next'}, 'timeout': 40, 'second_run': True,
           'second_reset': {'run_no_start_from': 10}, 'second_timeout': 30},
          {'statement': script, 'trace_threads': True, 'policy': {'kind': 'all', 'command': 'next'}, 'timeout': 40, 'second_run': True, 'second_timeout': 30}]
    for r in common.real_runs(rs, jobs=2, hard_timeout=120):
        sp, rec = r['spec'], r['rec']
        want = 10 if sp.get('second_reset') else 2
        chk.cov.case(('real-two-runs', want))
        chk.cov.count('kinds', 'real-child-two-runs')
        m = []
        if rec is None or rec.get('second_finished') is not True:
            m.append(f'two runs of one object did not finish: {(rec or {}).get("errors")}')
        else:
            sr = rec['second_records']
            if sr['run_no'] != [want]:
                m.append(f'run numbers published for the second run: {sr["run_no"]}, expected [{want}]')
            nums = {'run_info': sorted({x['run_no'] for x in sr['run_info']}), 'trace_info': sorted({x['run_no'] for x in sr['trace_info']}),
                    'prompt_info': sorted({x['run_no'] for x in sr['prompt_info']}), 'stdout': sorted({x[2] for x in sr['stdout']})}
            for k, v in nums.items():
                if v != [want]:
                    m.append(f'the {k} records of the run published as number {want} carry run numbers {v}')
        if m:
            oracle_fail.append(({'real_run': sp}, m, None))
    _life.finish(chk, 'C14', oracle_fail, dis, 'run numbers, run records, statement, child arguments')
