"""C09 — the subprocess emits a well-formed, properly nested event stream.  Model D1 (`NLV.Model.Trace`).

Tie: event streams produced by the child's real trace machinery (in-process through `nextline.spawned.run`, and
through the real spawn child with a probe on the outgoing queue, incl. interrupts at open prompts) must be accepted
by the Lean model (same nesting, same numbers) and by the registrars' grammar; plus the stack-checker oracle.
"""
from __future__ import annotations

import random

from .. import common, progs
from . import _trace


def unterminated_specs(chk: common.Check, n: int) -> list[dict]:
    """programs whose output does not end with a newline (the main thread's last write, a thread's, a task's: `print(x, end='')`,
    `sys.stdout.write('tail')`, '\\r' progress displays), threads joined and not joined: whatever is reported for such a piece
    belongs, like every other event, between the start and the end of its trace"""
    rng = chk.rng
    out = []
    for i in range(n):
        nt, na = [(0, 0), (1, 0), (2, 0), (0, 2), (1, 1), (2, 2)][i % 6]
        join = not (nt > 0 and i % 4 == 3)
        src, info = progs.unterminated_output(random.Random(rng.randrange(1 << 30)), nt, na, join=join)
        pol = [{'kind': 'all', 'command': 'next'}, {'kind': 'all', 'command': 'continue'}, {'kind': 'all', 'command': 'step'},
               {'kind': 'random', 'seed': i, 'choices': ['next', 'step', 'return']}][i % 4]
        out.append({'source': src, 'policy': pol, 'trace_threads': i % 5 != 4, 'trace_modules': False,
                    'kind': 'unterminated-output' + ('' if join else '-not-joined'), 'owners': info['owners'], 'unterminated': info['unterminated'],
                    'decoys': False, 'run_no': 8, 'timeout': 40, 'want_reference': False, 'want_recorder': False})
    return out


def stdout_bracket_oracle(evs: list[dict]) -> list[str]:
    """the clause 'nothing for a trace appears before its start or after its end' for reported output, naming the misplaced text
    (the grammar oracle flags the same events without saying on which side of the trace they lie)"""
    started: set = set()
    ended: set = set()
    msgs = []
    for e in evs:
        t = e.get('trace_no')
        if e['_type'] == 'OnStartTrace':
            started.add(t)
        elif e['_type'] == 'OnEndTrace':
            ended.add(t)
        elif e['_type'] == 'OnWriteStdout' and t is not None:
            if t in ended:
                msgs.append(f'output {e.get("text")!r} is reported for trace {t} after the end of that trace')
            elif t not in started:
                msgs.append(f'output {e.get("text")!r} is reported for trace {t} before the start of that trace')
    return msgs


def run(chk: common.Check) -> None:
    chk.cov.rule = ('generated programs (assignments, loops, conditionals, defs, classes, calls, try/except/raise, generators, lambdas; threads and '
                    'asyncio tasks, nested and sequential) × command policies {step, next, continue, return, until, random mixes, decoys, commands '
                    'that do not resume}, through the real trace machinery in-process; plus real-child runs with SIGINT at an open prompt; plus programs whose main thread / '
                    'threads / tasks end their output without a newline (end=\'\', sys.stdout.write, \\r progress; threads joined and not), in-process and in a real child. Every '
                    'emitted stream is checked by the Lean model (acceptance) and the grammar oracle. Non-trivial: the stream contains at least one '
                    'command loop; distinct = distinct (program, policy, options).')
    chk.assumptions += ['CPython calls the trace function per thread/task as the model\'s labels say (no nested trace calls within one trace)',
                        'itertools.count().__next__ is atomic under the GIL (single counters for trace-call and prompt numbers)']
    n1, n2 = (60, 30) if chk.tier == 'quick' else (600, 300)
    specs = _trace.gen_specs(chk, n1, n2) + _trace.stress_specs(chk, 8 if chk.tier == 'quick' else 60)
    specs += unterminated_specs(chk, 12 if chk.tier == 'quick' else 120)
    results = _trace.run_specs(specs)
    lines: list[str] = []
    spans = []
    oracle_fail = []
    for r in results:
        sp = r['spec']
        if 'harness_error' in r:
            if r['harness_error'].startswith('SKIPPED'):
                continue
            oracle_fail.append((sp, [f'the traced run did not complete: {r["harness_error"][:300]}'], None))
            continue
        t = r['traced']
        evs = t['events']
        chk.cov.case((sp['source'], repr(sp['policy']), sp['trace_threads'], sp['trace_modules']),
                     trivial=not any(e['_type'] == 'OnStartCmdloop' for e in evs))
        chk.cov.count('kinds', sp['kind'])
        chk.cov.count('policy', sp['policy'].get('command', 'random'))
        for e in evs:
            chk.cov.count('events', e['_type'])
        msgs = stdout_bracket_oracle(evs) + _trace.grammar_oracle(evs, sp.get('run_no', 1))
        if t.get('error'):
            msgs.append(f'spawned.run raised: {t["error"]}')
        if msgs:
            oracle_fail.append((sp, msgs, evs[:60]))
        enc = _trace.encode(evs)
        spans.append((sp, len(lines), len(enc)))
        lines += enc
    # real child: probe log is the emitted stream; interrupt at an open prompt exercises the `finally` paths
    nreal = 6 if chk.tier == 'quick' else 40
    rspecs = []
    for i in range(nreal):
        src = 'def f(n):\n    s = 0\n    for i in range(n):\n        s += i\n    return s\nx = f(3)\nprint(x)\ny = f(2)\n'
        spec = {'statement': src, 'trace_threads': True, 'policy': {'kind': 'all', 'command': ['step', 'next'][i % 2]}, 'probe': True,
                'timeout': 40}
        if i % 3 != 2:
            spec['signal'] = {'kind': 'interrupt', 'at_prompt': 2 + i}
        rspecs.append(spec)
    # real child, output that does not end with a newline (the remainder is handled when the child's plugin contexts are left)
    for i in range(2 if chk.tier == 'quick' else 12):
        src, info = progs.unterminated_output(random.Random(chk.rng.randrange(1 << 30)), [1, 2, 0][i % 3], [0, 1, 2][i % 3], join=i % 4 != 3)
        if 'M' not in info['unterminated']:
            src += "sys.stdout.write('M tail')\n"
        rspecs.append({'statement': src, 'trace_threads': True, 'policy': {'kind': 'all', 'command': ['next', 'continue'][i % 2]}, 'probe': True,
                       'timeout': 40, 'unterminated': True})
    for r in common.real_runs(rspecs, jobs=6, hard_timeout=90):
        sp = r['spec']
        evs = r['child_log']
        chk.cov.case(('real', repr(sp.get('signal')), repr(sp['policy'])) + ((sp['statement'],) if sp.get('unterminated') else ()))
        chk.cov.count('kinds', 'real-child' + ('-interrupt' if sp.get('signal') else '') + ('-unterminated-output' if sp.get('unterminated') else ''))
        rec = r['rec']
        if rec is None or not rec.get('finished'):
            oracle_fail.append((sp, [f'real run did not finish: {(rec or {}).get("errors")}'], None))
            continue
        if not evs:
            oracle_fail.append((sp, ['the child-side probe recorded no events'], None))
            continue
        msgs = stdout_bracket_oracle(evs) + _trace.grammar_oracle(evs, 1)
        if msgs:
            oracle_fail.append((sp, msgs, evs[:60]))
        enc = _trace.encode(evs)
        spans.append((sp, len(lines), len(enc)))
        lines += enc
    model_err = None
    rejected = []
    try:
        mo = common.model_batch('trace', lines)
        for sp, a, n in spans:
            seg = mo[a:a + n]
            bad = [k for k, x in enumerate(seg) if x.startswith('reject') or x == 'bad-op']
            if bad:
                rejected.append((sp, lines[a:a + n][:bad[0] + 1][-12:], seg[bad[0]]))
        chk.cov.traces_validated = len(spans)
    except Exception as e:
        model_err = f'{type(e).__name__}: {e}'
    if spans:
        sp, a, n = spans[0]
        chk.cov.sample({'program': sp.get('source', sp.get('statement')), 'policy': sp['policy'], 'encoded_events': lines[a:a + min(n, 25)]})
    for sp, msgs, evs in oracle_fail[:5]:
        chk.violation(f'C09 oracle: {msgs[0]}', {'spec': sp, 'oracle_messages': msgs[:10], 'first_events': evs})
    broken = common.proof_broken(chk)
    if model_err:
        broken.append(f'model driver unusable: {model_err}')
    if rejected:
        chk.cov.disagreements_checked = len(rejected)
        sp, ctx, why = min(rejected, key=lambda r: len(r[0].get('source', '')))
        broken.append(f'correspondence D1 broken: {len(rejected)} emitted streams are not accepted by the model ({why}); e.g. … {ctx[-4:]}')
    if broken and not oracle_fail:
        d = None
        if rejected:
            sp, ctx, why = min(rejected, key=lambda r: len(r[0].get('source', '')))
            d = {'spec': sp, 'last_lines': ctx, 'reply': why}
        chk.violation('C09: ' + ' | '.join(broken[:3]), {'no_longer_checks': broken, 'smallest_rejected': d}, no_input=True)
