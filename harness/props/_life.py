"""Shared machinery of the lifecycle properties C01, C03, C12, C14, C15, C16 (model A).

* serial histories: exhaustive short + seeded random long op sequences, executed on the real `Nextline` with the
  simulated child (FIFO and random schedules) and on the Lean model; compared on the observables a property names;
* overlapping lifecycle calls from several tasks under the permuting loop: oracle only; violations there match the
  known-finding signature `overlapping_lifecycle_calls`.
"""
from __future__ import annotations

import asyncio
import itertools
import multiprocessing as mp
import random
from typing import Any, Callable, Optional

from .. import common, fakes, lifecycle, loop as ctl

ALPHABET = ['start', 'run', 'rac', 'rcw', 'reset - - - -', 'reset 7 - - -', 'close', 'sig kill', 'cmd', 'prompt', 'exit 5', 'exit -', 'pexit 5', 'xreset 5', 'xclose -', 'kclose 5 1', 'kclose - 4', 'exitx 5', 'reg2', 'unreg2', 'exit +', 'reset 9 - - -']
LIFECYCLE = ('start', 'run', 'rac', 'rcw', 'reset', 'close')
EDGES = {('created', 'initialized'), ('initialized', 'running'), ('running', 'finished'), ('initialized', 'initialized'),
         ('finished', 'initialized'), ('created', 'closed'), ('initialized', 'closed'), ('running', 'closed'), ('finished', 'closed')}


def gen_serial(chk: common.Check, exhaustive_len: int, nrand: int) -> list[tuple[tuple, list[str]]]:
    rng = chk.rng
    scen: list[tuple[tuple, list[str]]] = []
    corpus = [
        ['close'],                                                          # F-A5 witness (fixed)
        ['start', 'run', 'close', 'exit 5', 'close'],                        # close while running waits for the run
        ['start', 'rcw', 'exit 5', 'rac', 'reset - - - -', 'run', 'prompt', 'exit -'],   # F-C1 witness (fixed)
        ['start', 'run', 'exit 5', 'reset 3 10 1 1', 'run', 'exit -', 'reset - - - -', 'run'],
        ['start', 'close', 'start', 'run'],
        ['start', 'run', 'rac', 'prompt', 'exit 1'],
        ['start', 'rac', 'rac', 'prompt', 'exit 1', 'reset - - - -', 'run', 'prompt'],
    ]
    # every (trigger, state) pair, reached by a canonical path: a transition added to or removed from CONFIG shows here
    paths = {'created': [], 'initialized': ['start'], 'running': ['start', 'run'], 'finished': ['start', 'run', 'exit 5'],
             'closed': ['start', 'close']}
    for st, path in paths.items():
        for trig in ['start', 'run', 'reset - - - -', 'close', 'rac']:
            corpus.append(path + [trig, 'exit 5', 'run'])
    for ops in corpus:
        scen.append(((0, 1, False, False), ops))
    for L in range(1, exhaustive_len + 1):
        for ops in itertools.product(ALPHABET, repeat=L):
            scen.append(((0, 1, False, False), list(ops)))
    for _ in range(nrand):
        init = (rng.randint(0, 3), rng.choice([1, 1, 5, 100]), rng.random() < 0.3, rng.random() < 0.3)
        ops = []
        for _ in range(rng.randint(4, 25)):
            r = rng.random()
            if r < 0.08:
                ops.append('start')
            elif r < 0.25:
                ops.append('run')
            elif r < 0.32:
                ops.append('rac')
            elif r < 0.38:
                ops.append('rcw')
            elif r < 0.52:
                def o(x: Any) -> str:
                    return '-' if x is None else str(int(x))
                ops.append(f"reset {o(rng.choice([None, None, rng.randint(1, 9)]))} {o(rng.choice([None, None, rng.randint(1, 50)]))} "
                           f"{o(rng.choice([None, None, True, False]))} {o(rng.choice([None, None, True, False]))}")
            elif r < 0.57:
                ops.append('close')
            elif r < 0.63:
                ops.append('sig ' + rng.choice(['kill', 'terminate', 'interrupt']))
            elif r < 0.68:
                ops.append('cmd')
            elif r < 0.78:
                ops.append('prompt')
            else:
                ops.append(rng.choice(['exit 5', 'exit -', 'exit 0', 'pexit 3', 'pexit -', 'xreset 1', 'xreset -', 'xclose 2',
                                       f'kclose 3 {rng.randint(0, 14)}', f'kclose - {rng.randint(0, 14)}', 'exitx 4', 'exitx -', 'reg2', 'unreg2', 'reg2', 'exit +', 'reset 9 - - -']))
        if rng.random() < 0.8 and ops[0] != 'start':
            ops.insert(0, 'start')
        scen.append((init, ops))
    return scen


def _shard(args: tuple) -> list:
    scen, seed = args
    out = []
    for idx, init, ops, sched in scen:
        chooser: Any = ctl.Fifo() if sched is None else ctl.Rand(random.Random(sched))
        try:
            replies, info = lifecycle.run_scenario(init, ops, chooser)
            out.append((idx, replies, info, None))
        except (Exception, ctl.StepBudgetExceeded) as e:  # noqa
            out.append((idx, [], {}, f'{type(e).__name__}: {e}'))
    return out


def run_serial(chk: common.Check, scen: list[tuple[tuple, list[str]]], random_schedules: bool = True) -> list[dict]:
    """Execute on implementation and model; returns rows {init, ops, impl, model, info}."""
    n = 16
    jobs = []
    for i, (init, ops) in enumerate(scen):
        sched = None if (not random_schedules or i % 3 != 2) else chk.seed * 7919 + i
        jobs.append((i, init, ops, sched))
    shards: list = [([], chk.seed) for _ in range(n)]
    for j in jobs:
        shards[j[0] % n][0].append(j)
    with mp.get_context('fork').Pool(n) as pool:
        res = pool.map(_shard, shards)
    impl: dict = {}
    for sh in res:
        for i, replies, info, err in sh:
            if err and 'FakesNotInstallable' in err:
                raise RuntimeError(err)
            impl[i] = (replies, info, err)
    lines = []
    for init, ops in scen:
        st, rn, tt, tm = init
        lines.append(f'new {st} {rn} {int(tt)} {int(tm)}')
        lines += ops
    model_out: Optional[list[str]] = None
    try:
        model_out = common.model_batch('life', lines)
    except Exception as e:
        chk.notes.append(f'model driver unusable: {type(e).__name__}: {e}')
    rows = []
    pos = 0
    for i, (init, ops) in enumerate(scen):
        replies, info, err = impl[i]
        mo = None
        if model_out is not None:
            mo = model_out[pos + 1: pos + 1 + len(ops)]
            pos += 1 + len(ops)
        rows.append({'init': init, 'ops': ops, 'impl': replies, 'model': mo, 'info': info, 'error': err,
                     'schedule': jobs[i][3]})
    return rows


def compare(rows: list[dict], kinds: set[str]) -> list[dict]:
    """Disagreements between implementation and model restricted to the given observation kinds."""
    out = []
    for r in rows:
        if r['model'] is None or r['error']:
            continue
        for k, (a, b) in enumerate(zip(r['impl'], r['model'])):
            ga, gb = lifecycle.group(a), lifecycle.group(b)
            if (a == 'skipped') != (b == 'skipped'):
                out.append({'row': r, 'step': k, 'impl': a, 'model': b})
                break
            pa = {x: ga.get(x) for x in kinds}
            pb = {x: gb.get(x) for x in kinds}
            if pa != pb:
                out.append({'row': r, 'step': k, 'impl': a, 'model': b,
                            'differs_in': sorted(x for x in kinds if ga.get(x) != gb.get(x))})
                break
    return out


def coverage(chk: common.Check, rows: list[dict], nontrivial: Callable[[dict], bool]) -> None:
    for r in rows:
        chk.cov.case((r['init'], tuple(r['ops']), r['schedule'] is not None), trivial=not nontrivial(r))
        for o in r['ops']:
            chk.cov.count('ops', o.split()[0])
        for rep in r['impl']:
            for tok in rep.split():
                if tok.startswith('ret:'):
                    chk.cov.count('results', tok.split(':')[2])
                elif tok.startswith('blocked:'):
                    chk.cov.count('results', 'blocked')
        if rows.index(r) in (2, len(rows) - 1) if len(rows) < 50 else False:
            pass
    for r in (rows[1], rows[len(rows) // 2], rows[-1]):
        chk.cov.sample({'init': r['init'], 'ops': r['ops'], 'impl_replies': r['impl'][:12]})
    chk.cov.traces_validated = sum(1 for r in rows if r['model'] is not None)


# ---------------------------------------------------------------------------------------------------------
# overlapping lifecycle calls (oracle only)
# ---------------------------------------------------------------------------------------------------------

def concurrent_trial(seed: int) -> dict:
    """2–3 caller tasks, each a short list of lifecycle calls, random schedule, random child exits."""
    rng = random.Random(seed)
    ntasks = rng.randint(2, 3)
    calls = [[rng.choice(['run', 'reset', 'close', 'run_and_continue', 'run', 'reset']) for _ in range(rng.randint(1, 3))]
             for _ in range(ntasks)]
    pre = rng.choice([[], ['run'], ['run', 'exit'], ['run', 'exit', 'reset']])
    samples: list = []
    holder: dict = {}
    live_max = [0]
    alive_at_finished = [False]
    pubs: list = []

    def on_step() -> None:
        nl = holder.get('nl')
        if nl is not None:
            s = nl.state
            if not samples or samples[-1] != s:
                samples.append(s)
            w = holder['w']
            live_max[0] = max(live_max[0], len(w.live()))

    async def main() -> list:
        from nextline import Nextline
        w = fakes.reset_world()
        w.signal_exits = True
        nl = Nextline('x = 1\n')
        holder['nl'], holder['w'] = nl, w

        async def sub() -> None:
            async for s in nl.subscribe_state():
                pubs.append(s)
                if s == 'finished' and w.live():
                    alive_at_finished[0] = True
        st = asyncio.ensure_future(sub())
        await nl.start()
        for p in pre:
            if p == 'run':
                await nl.run()
            elif p == 'exit':
                for c in w.live():
                    c.exit(None)
                await lifecycle.settle()
            elif p == 'reset':
                await nl.reset()
        res = []

        async def seq(i: int) -> None:
            for c in calls[i]:
                for _ in range(rng.randint(0, 3)):
                    await asyncio.sleep(0)
                try:
                    await getattr(nl, c)()
                    res.append((i, c, 'ok', nl.state, len(w.live())))
                except Exception as e:  # noqa
                    res.append((i, c, type(e).__name__, nl.state, len(w.live())))
        ts = [asyncio.ensure_future(seq(i)) for i in range(ntasks)]

        async def env() -> None:
            for _ in range(60):
                await asyncio.sleep(0)
                for c in w.live():
                    if rng.random() < 0.15:
                        c.exit(None)
        te = asyncio.ensure_future(env())
        await asyncio.wait(ts + [te])
        holder['end_state'] = nl.state
        holder['end_live'] = len(w.live())
        for _ in range(3):
            for c in w.live():
                c.exit(None)
            await lifecycle.settle()
        st.cancel()
        return res
    fakes.install()
    chooser = ctl.Rand(random.Random(seed * 31 + 1))
    err = None
    res: list = []
    try:
        res = ctl.run(main, chooser, on_step)
    except (Exception, ctl.StepBudgetExceeded) as e:  # noqa
        err = f'{type(e).__name__}: {e}'
    return {'seed': seed, 'calls': calls, 'pre': pre, 'states': samples, 'published': pubs, 'results': res, 'error': err,
            'end_state': holder.get('end_state'), 'end_live': holder.get('end_live'), 'max_live_children': live_max[0], 'child_alive_at_finished': alive_at_finished[0], 'schedule': chooser.trace}


def _conc_shard(seeds: list) -> list:
    return [concurrent_trial(s) for s in seeds]


def run_concurrent(chk: common.Check, n: int) -> list[dict]:
    seeds = [chk.seed * 1000003 + i for i in range(n)]
    with mp.get_context('fork').Pool(16) as pool:
        res = pool.map(_conc_shard, [seeds[i::16] for i in range(16)])
    return [r for sh in res for r in sh]


def finish(chk: common.Check, pid: str, oracle_fail: list, disagreements: list, what: str) -> None:
    seen_sig: set = set()
    nreal = 0
    for ctx, msgs, sig in oracle_fail:
        if sig is None:
            if nreal < 5:
                chk.violation(f'{pid} oracle: {msgs[0]}', {'scenario': ctx, 'oracle_messages': msgs})
            nreal += 1
        elif sig not in seen_sig:
            seen_sig.add(sig)
            chk.violation(f'{pid} oracle ({sig}): {msgs[0]}', {'scenario': ctx, 'oracle_messages': msgs}, signature=sig)
    broken = common.proof_broken(chk)
    broken += [n for n in chk.notes if 'model driver unusable' in n]
    if disagreements:
        chk.cov.disagreements_checked = len(disagreements)
        d = min(disagreements, key=lambda d: len(d['row']['ops']))
        broken.append(f"correspondence A ({what}) broken on {len(disagreements)} histories; shortest {d['row']['ops']} at step {d['step']}: "
                      f"model {d['model']!r} vs implementation {d['impl']!r}")
    real_fail = [f for f in oracle_fail if f[2] is None]
    if broken and not real_fail:
        d0 = None
        if disagreements:
            d = min(disagreements, key=lambda d: len(d['row']['ops']))
            d0 = {'init': d['row']['init'], 'ops': d['row']['ops'], 'step': d['step'], 'model': d['model'], 'implementation': d['impl'],
                  'schedule': d['row']['schedule']}
        chk.violation(f'{pid}: ' + ' | '.join(broken[:3]), {'no_longer_checks': broken, 'shortest_disagreement': d0}, no_input=True)
