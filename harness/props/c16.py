"""C16 — non-interactive mode is confined to the run that requested it.  Model A."""
from __future__ import annotations

from typing import Any

from .. import common, lifecycle
from . import _life

KINDS = {'pc', 'ce', 'cmd', 'ret', 'blocked'}


def oracle_serial(r: dict) -> list[str]:
    msgs = []
    cont_run = False      # a run started by an accepted non-interactive request is in flight
    started = False
    for op, rep in zip(r['ops'], r['impl']):
        if rep == 'skipped':
            continue
        g = lifecycle.group(rep)
        toks = rep.split()
        w = op.split()[0]
        if w == 'start' and 'ret:start:ok' in toks:
            started = True
        accepted_cont = w in ('rac', 'rcw') and any(t.startswith('cs:') for t in toks)
        if accepted_cont:
            cont_run = True
        ncmd = sum(1 for t in toks if t == 'cmd')
        if w == 'cmd':
            ncmd -= 1 if 'ret:send_pdb_command:ok' in toks else 0
        if ncmd > 0 and not cont_run:
            msgs.append(f'{ncmd} command(s) reached the child of a run started with plain run() ({op!r}): it was auto-answered')
        if w == 'prompt' and cont_run and 'lc=1' in rep and ncmd == 0:
            msgs.append('a prompt of a non-interactive run was not answered')
        if 'ps:finished' in toks or g['st'][0] != 'running':
            cont_run = False          # a non-interactive run is in flight only while the state is 'running'
        ce = g['ce'][0]
        if started and ce != 'E':
            if (ce == '1') != cont_run:
                msgs.append(f'continuous_enabled is {ce} after {op!r}; a non-interactive run is {"" if cont_run else "not "}in flight')
    return msgs


def plugin_failure_case(mode: str, hook_name: str) -> dict:
    """A non-interactive run during which a third-party plugin's hook raises in the main process (here: on an event relayed from
    the child), so that the run's context is left by an exception: when the run is over the mode must be over too."""
    import asyncio
    import datetime
    from .. import fakes, loop as ctl
    from nextline.spawned import RunResult

    async def main() -> dict:
        from nextline import events as E
        from nextline.plugin.spec import hookimpl
        sc = lifecycle.Scenario(0, 1, False, False)
        await sc.setup()
        nl = sc.nl

        async def boom(self: Any, context: Any, event: Any) -> None:
            raise RuntimeError(f'plugin failure in {hook_name} (injected by the harness)')
        boom.__name__ = hook_name
        Bad = type('Bad', (), {hook_name: hookimpl(boom)})
        bad = Bad()
        nl.register(bad)
        await sc.op('start')
        await sc.op(mode)
        now = datetime.datetime.utcnow
        live = sc.world.live()
        if live:
            c = live[-1]
            # (one event only: once the relay task has died of the exception, anything left in the channel makes the session's drain loop
            # spin until its wall-clock time-out, which the virtual-time loop cannot wait for)
            c.emit(E.OnStartTrace(started_at=now(), run_no=1, trace_no=1, thread_no=1, task_no=None))
            await lifecycle.settle()
            c.exit(RunResult(ret=5), exitcode=0)
        await lifecycle.settle()
        out: dict = {'mode': mode, 'hook': hook_name, 'state': nl.state, 'enabled': nl.continuous_enabled}
        # the next, plain run must be interactive: its prompt stays unanswered (the faulty plugin is gone by then)
        nl.unregister(bad)
        await sc.op('reset - - - -')
        await sc.op('run')
        rep = await sc.op('prompt')
        out['commands_in_plain_run'] = rep.split().count('cmd')
        for c in sc.world.live():
            c.exit(RunResult(ret=None), exitcode=0)
        await lifecycle.settle()
        try:
            await asyncio.wait_for(nl.close(), timeout=5)
        except BaseException:  # noqa
            pass
        return out
    fakes.install()
    try:
        return ctl.run(main, ctl.Fifo())
    except (Exception, ctl.StepBudgetExceeded) as e:  # noqa
        return {'mode': mode, 'hook': hook_name, 'error': f'{type(e).__name__}: {e}'}


USER_HOOKS = ('on_finished', 'on_end_run', 'on_change_state')
SETTLE_ROUNDS = 6        # turns of the ready queue after the state attribute first reads 'finished' before the flag is sampled
#                          (the mode is switched off by a hook of the `finish` transition, which is started right after the state changes)


def user_plugin_case(api: str, hook_name: str, fault: str, n: int) -> dict:
    """A user plugin is registered BEFORE the non-interactive request.  Its hook `hook_name` — one of the hooks called when the run ends
    (on_end_run; on_finished; on_change_state with 'finished') — misbehaves during that run: it suspends `n` turns of the loop and then
    returns (fault 'slow') or raises (fault 'raises').  Whatever a third-party hook does: once the run has finished the mode is over — the
    flag is False (sampled a few loop turns after the state attribute first reads 'finished', possibly while the user's hook is still
    suspended, and again after everything settled), and the next plain run() is interactive."""
    import asyncio
    from .. import fakes, loop as ctl
    from nextline.spawned import RunResult

    async def main() -> dict:
        from nextline.plugin.spec import hookimpl
        sc = lifecycle.Scenario(0, 1, False, False)
        await sc.setup()
        nl = sc.nl
        st = {'armed': False, 'entered': 0, 'suspended': False, 'left': 0}

        async def misbehave() -> None:
            if not st['armed']:
                return
            st['armed'] = False
            st['entered'] += 1
            st['suspended'] = True
            try:
                for _ in range(n):
                    await asyncio.sleep(0)
            finally:
                st['suspended'] = False
                st['left'] += 1
            if fault == 'raises':
                raise RuntimeError(f'plugin failure in {hook_name} (injected by the harness)')

        async def on_finished(self: Any, context: Any) -> None:
            await misbehave()

        async def on_end_run(self: Any, context: Any, event: Any) -> None:
            await misbehave()

        async def on_change_state(self: Any, context: Any, state_name: str) -> None:
            if state_name == 'finished':
                await misbehave()
        impl = {'on_finished': on_finished, 'on_end_run': on_end_run, 'on_change_state': on_change_state}[hook_name]
        User = type('UserPlugin', (), {hook_name: hookimpl(impl)})
        user = User()
        await sc.op('start')
        flags: list = []

        async def watch_flag() -> None:
            async for b in nl.subscribe_continuous_enabled():
                flags.append(bool(b))
        wf = asyncio.ensure_future(watch_flag())
        await lifecycle.settle()
        nl.register(user)                       # before the request
        st['armed'] = True
        rep = await sc.op(api)
        out: dict = {'api': api, 'hook': hook_name, 'fault': fault, 'n': n, 'accepted': any(t.startswith('cs:') for t in rep.split()),
                     'enabled_during': nl.continuous_enabled, 'state_during': nl.state}
        rep = await sc.op('prompt')
        out['commands_at_prompt'] = rep.split().count('cmd')
        obs: dict = {}

        async def watch_state() -> None:
            # a client that polls the state attribute
            for _ in range(5000):
                if nl.state == 'finished':
                    break
                await asyncio.sleep(0)
            else:
                obs['never_finished'] = nl.state
                return
            obs['enabled_when_first_finished'] = nl.continuous_enabled
            trail = []
            for k in range(max(n, 0) + 4 * SETTLE_ROUNDS):
                if k == SETTLE_ROUNDS:
                    obs['enabled_at_finished'] = nl.continuous_enabled
                    obs['user_hook_suspended_then'] = st['suspended']
                trail.append(1 if nl.continuous_enabled else 0)
                await asyncio.sleep(0)
            obs['rounds_until_off'] = trail.index(0) if 0 in trail else None
        ws = asyncio.ensure_future(watch_state())
        for c in sc.world.live():
            c.exit(RunResult(ret=5), exitcode=0)
        await asyncio.wait_for(ws, timeout=600)          # (virtual time; bounded by its own loops)
        await lifecycle.settle()
        sc._collect()                           # (run_continue_and_wait() has returned by now: the driver is free for the next call)
        out['requester_blocked_after'] = [name for name, _ in sc.pending]
        out.update(obs)
        out.update(hook_entered=st['entered'], hook_left=st['left'], state_after=nl.state, enabled_after=nl.continuous_enabled,
                   live_after=len(sc.world.live()), published_by_end_of_run=list(flags))
        # the next, plain run must be interactive: its prompt stays unanswered (the user's plugin is gone by then)
        nl.unregister(user)
        await sc.op('reset - - - -')
        rep = await sc.op('run')
        out['plain_run_started'] = any(t.startswith('cs:') for t in rep.split())
        out['enabled_in_plain_run'] = nl.continuous_enabled
        rep = await sc.op('prompt')
        out['commands_in_plain_run'] = rep.split().count('cmd')
        out['enabled_in_plain_run'] = out['enabled_in_plain_run'] or nl.continuous_enabled
        for c in sc.world.live():
            c.exit(RunResult(ret=None), exitcode=0)
        await lifecycle.settle()
        try:
            await asyncio.wait_for(nl.close(), timeout=5)
        except BaseException:  # noqa
            pass
        await lifecycle.settle()
        out['published'] = flags
        wf.cancel()
        return out
    fakes.install()
    try:
        return ctl.run(main, ctl.Fifo())
    except (Exception, ctl.StepBudgetExceeded) as e:  # noqa
        return {'api': api, 'hook': hook_name, 'fault': fault, 'n': n, 'error': f'{type(e).__name__}: {e}'}


def user_plugin_oracle(r: dict) -> list[str]:
    if 'error' in r:
        return [f'scenario failed: {r["error"]}']
    how = f"suspends {r['n']} loop turn(s) and then {'raises' if r['fault'] == 'raises' else 'returns'}"
    who = (f"a user plugin registered before {'run_and_continue' if r['api'] == 'rac' else 'run_continue_and_wait'}() whose {r['hook']} hook {how}")
    m = []
    if not r['accepted'] or r['state_during'] != 'running':
        return [f"scenario failed: the non-interactive run did not start ({r})"]
    if not r['enabled_during']:
        m.append(f'{who}: the non-interactive run is in flight, but continuous_enabled is False')
    if r['commands_at_prompt'] != 1:
        m.append(f"{who}: the prompt of the non-interactive run was answered {r['commands_at_prompt']} time(s)")
    if 'never_finished' in r:
        return m + [f"scenario failed: the state never became 'finished' after the child exited (state {r['never_finished']!r}) ({who})"]
    if r['hook_entered'] != 1 or r['hook_left'] != 1:
        return m + [f"scenario failed: the user's hook was entered {r['hook_entered']} and left {r['hook_left']} time(s) ({who})"]
    if r['enabled_at_finished']:
        m.append(f"{who}: {SETTLE_ROUNDS} loop turns after the state attribute first read 'finished' "
                 f"({'the hook was still suspended' if r['user_hook_suspended_then'] else 'the hook had ended'}) continuous_enabled is still True "
                 + (f"(it went off after {r['rounds_until_off']} turn(s))" if r['rounds_until_off'] is not None else '(it never went off while watched)'))
    if r['state_after'] != 'finished' or r['enabled_after']:
        m.append(f"{who}: after the run ended and everything settled the state is {r['state_after']!r} and continuous_enabled is {r['enabled_after']}")
    if not r['plain_run_started']:
        return m + [f"scenario failed: the plain run() after reset() did not start ({who})"]
    if r['enabled_in_plain_run']:
        m.append(f'{who}: continuous_enabled is True during the plain run() after reset()')
    if r['commands_in_plain_run']:
        m.append(f"{who}: the next plain run() (after reset()) was auto-answered ({r['commands_in_plain_run']} command(s) reached the child)")
    pub = r['published_by_end_of_run']
    if True not in pub or pub[pub.index(True):].count(False) != 1 or pub[-1] is not False:
        m.append(f'{who}: publications of the flag up to the end of that run (everything settled): {pub} (expected …, True, False)')
    later = r['published'][len(pub):]
    if True in later:
        m.append(f'{who}: publications of the flag during the reset() and the plain run() that followed: {later} (True is never expected there)')
    return m


def start_overlap_case(watch: str) -> dict:
    """A task that starts a non-interactive run the moment the object becomes 'initialized' — while the task that called start() is
    still inside it."""
    import asyncio
    from .. import fakes, loop as ctl
    from nextline.spawned import RunResult

    async def main() -> dict:
        sc = lifecycle.Scenario(0, 1, False, False)
        await sc.setup()
        nl = sc.nl
        flags: list = []

        async def watch_flag() -> None:
            async for b in nl.subscribe_continuous_enabled():
                flags.append(bool(b))
        wf = asyncio.ensure_future(watch_flag())

        async def auto() -> None:
            if watch == 'attribute':
                while nl.state != 'initialized':
                    await asyncio.sleep(0)
            else:
                async for s in nl.subscribe_state():
                    if s == 'initialized':
                        break
            await nl.run_and_continue()
        ta = asyncio.ensure_future(auto())
        ts = asyncio.ensure_future(nl.start())
        await asyncio.gather(ta, ts, return_exceptions=True)
        await lifecycle.settle()
        out: dict = {'watch': watch, 'state_during': nl.state, 'enabled_during': nl.continuous_enabled, 'live': len(sc.world.live())}
        for c in sc.world.live():
            c.exit(RunResult(ret=None), exitcode=0)
        await lifecycle.settle()
        out.update(state_after=nl.state, enabled_after=nl.continuous_enabled)
        try:
            await asyncio.wait_for(nl.close(), timeout=5)
        except BaseException:  # noqa
            pass
        await lifecycle.settle()
        out['published'] = flags
        wf.cancel()
        return out
    fakes.install()
    try:
        return ctl.run(main, ctl.Fifo())
    except (Exception, ctl.StepBudgetExceeded) as e:  # noqa
        return {'watch': watch, 'error': f'{type(e).__name__}: {e}'}


def cancel_requester_case(api: str, delay: int) -> dict:
    """The task that requested the non-interactive run is cancelled `delay` loop steps after the request (a time-out around the call).
    Whatever that does to the requester: if a run is in flight afterwards it is that request's run — the flag must be on and its
    prompts answered until it finishes; if none is, the flag must be off."""
    import asyncio
    from .. import fakes, loop as ctl
    from nextline.spawned import RunResult

    async def main() -> dict:
        sc = lifecycle.Scenario(0, 1, False, False)
        await sc.setup()
        nl = sc.nl
        await sc.op('start')
        flags: list = []

        async def watch_flag() -> None:
            async for b in nl.subscribe_continuous_enabled():
                flags.append(bool(b))
        wf = asyncio.ensure_future(watch_flag())
        await lifecycle.settle()
        t = asyncio.ensure_future(nl.run_and_continue() if api == 'rac' else nl.run_continue_and_wait())
        for _ in range(delay):
            await asyncio.sleep(0)
        t.cancel()
        await lifecycle.settle()
        out: dict = {'api': api, 'delay': delay, 'state': nl.state, 'live': len(sc.world.live()), 'enabled': nl.continuous_enabled,
                     'requester': 'cancelled' if t.cancelled() else (f'raised {type(t.exception()).__name__}' if t.done() and t.exception() else
                                                                    ('returned' if t.done() else 'still waiting'))}
        if sc.world.live():
            rep = await sc.op('prompt')
            out['commands_at_prompt'] = rep.split().count('cmd')
        for c in sc.world.live():
            c.exit(RunResult(ret=5), exitcode=0)
        await lifecycle.settle()
        out.update(state_after=nl.state, enabled_after=nl.continuous_enabled)
        try:
            await asyncio.wait_for(nl.close(), timeout=5)
        except BaseException:  # noqa
            pass
        await lifecycle.settle()
        out['published'] = flags
        wf.cancel()
        t.cancel()
        return out
    fakes.install()
    try:
        return ctl.run(main, ctl.Fifo())
    except (Exception, ctl.StepBudgetExceeded) as e:  # noqa
        return {'api': api, 'delay': delay, 'error': f'{type(e).__name__}: {e}'}


def cancel_requester_oracle(r: dict) -> list[str]:
    if 'error' in r:
        return [f'scenario failed: {r["error"]}']
    who = (f"the task that called {'run_and_continue' if r['api'] == 'rac' else 'run_continue_and_wait'}() was cancelled {r['delay']} loop step(s) "
           f"after the call (requester: {r['requester']})")
    m = []
    if r['state'] == 'running' and r['live']:
        if not r['enabled']:
            m.append(f'{who}; the run it requested is in flight, but continuous_enabled is False')
        if r.get('commands_at_prompt') != 1:
            m.append(f"{who}; the run it requested is in flight, but its prompt was answered {r.get('commands_at_prompt')} time(s)")
        if r['state_after'] != 'finished' or r['enabled_after']:
            m.append(f"{who}; after the child exited the state is {r['state_after']!r} and continuous_enabled is {r['enabled_after']}")
        pub = r['published']
        if True not in pub or pub[pub.index(True):].count(False) != 1 or pub[-1] is not False:
            m.append(f'{who}; publications of the flag around that run: {pub} (expected …, True, False)')
    elif r['state'] == 'initialized' and not r['live']:
        if r['enabled']:
            m.append(f'{who}; no run is in flight, but continuous_enabled is True')
    return m


def run(chk: common.Check) -> None:
    chk.cov.rule = ('serial histories (as C01) mixing run, run_and_continue, run_continue_and_wait, reset, close — accepted or refused — with the '
                    'simulated child emitting prompts: a continuous run\'s prompt must be answered by the Continue plugin, an interactive run\'s '
                    'prompt must stay unanswered; observables: continuous_enabled after every operation, the flag\'s publications, commands '
                    'reaching the child; compared with the Lean model. Non-trivial: a non-interactive request was refused or followed by a plain '
                    'run; distinct = distinct (options, history, schedule kind).')
    chk.assumptions += ['serial histories']
    L = 3 if chk.tier == 'quick' else 4
    scen = _life.gen_serial(chk, L, 2500 if chk.tier == 'quick' else 30000)
    rows = _life.run_serial(chk, scen)
    _life.coverage(chk, rows, lambda r: any(o in ('rac', 'rcw') for o in r['ops']) and 'run' in r['ops'])
    chk.cov.exhaustive = True
    chk.cov.extra['exhaustive_scope'] = f'all serial histories of length ≤ {L} over {_life.ALPHABET}'
    oracle_fail = []
    for r in rows:
        if r['error']:
            oracle_fail.append(({'init': r['init'], 'ops': r['ops']}, [f'scenario failed: {r["error"]}'], None))
            continue
        m = oracle_serial(r)
        if m:
            oracle_fail.append(({'init': r['init'], 'ops': r['ops'], 'schedule': r['schedule'], 'implementation': r['impl']}, m, None))
    dis = _life.compare(rows, KINDS)
    for watch in ('attribute', 'subscription'):
        r = start_overlap_case(watch)
        chk.cov.case(('start-overlap', watch))
        chk.cov.count('kinds', 'non-interactive-run-requested-while-start-is-in-flight')
        m = []
        if 'error' in r:
            m.append(f'scenario failed: {r["error"]}')
        else:
            if r['state_during'] == 'running' and r['live'] and not r['enabled_during']:
                m.append('a non-interactive run requested the moment the object became initialized (start() still in flight) is running, '
                         'but continuous_enabled is False')
            if r['enabled_after']:
                m.append(f"the run is over (state {r['state_after']}) but continuous_enabled is still True")
            pub = r['published']
            if r['state_during'] == 'running' and r['live'] and (True not in pub or pub[pub.index(True):].count(False) != 1 or pub[-1] is not False):
                m.append(f'publications of the flag around that run: {pub} (expected …, True, False)')
        if m:
            oracle_fail.append(({'start_overlap': r}, m, None))
    for api in ('rac', 'rcw'):
        # (delay 1 is the window of the recorded finding F-A3 — cancelling the caller of run() at its first suspension leaves the object stuck —
        # which belongs to C01/C02's known findings, not to this property)
        for delay in (0, 2, 3, 4, 5, 6, 8, 12):
            r = cancel_requester_case(api, delay)
            chk.cov.case(('requester-cancelled', api, delay))
            chk.cov.count('kinds', 'requester-of-a-non-interactive-run-is-cancelled')
            m = cancel_requester_oracle(r)
            if m:
                oracle_fail.append(({'cancel_requester': r}, m, None))
    for mode in ('rac', 'rcw'):
        for hook_name in ('on_start_trace',):
            if mode == 'rcw':
                continue          # run_continue_and_wait blocks the driver until the run ends: covered through run_and_continue
            r = plugin_failure_case(mode, hook_name)
            chk.cov.case(('plugin-failure', mode, hook_name))
            chk.cov.count('kinds', 'plugin-hook-raises-during-non-interactive-run')
            m = []
            if 'error' in r:
                m.append(f'scenario failed: {r["error"]}')
            else:
                if r['state'] != 'running' and r['enabled']:
                    m.append(f"a plugin's {hook_name} raised during a non-interactive run; the run is over (state {r['state']}) but continuous_enabled is still True")
                if r['commands_in_plain_run']:
                    m.append(f"after a non-interactive run during which a plugin's {hook_name} raised, the next plain run() was auto-answered "
                             f"({r['commands_in_plain_run']} command(s) reached the child)")
            if m:
                oracle_fail.append(({'plugin_failure': r}, m, None))
    for api in ('rac', 'rcw'):
        for hook_name in USER_HOOKS:
            for fault in ('raises', 'slow'):
                for n in (0, 1, 5, 50):
                    r = user_plugin_case(api, hook_name, fault, n)
                    chk.cov.case(('user-plugin', api, hook_name, fault, n))
                    chk.cov.count('kinds', 'user-plugin-hook-raises-at-end-of-non-interactive-run' if fault == 'raises'
                                  else 'user-plugin-hook-slow-at-end-of-non-interactive-run')
                    m = user_plugin_oracle(r)
                    if m:
                        oracle_fail.append(({'user_plugin': r}, m, None))
    _life.finish(chk, 'C16', oracle_fail, dis, 'continuous flag, its publications, commands reaching the child')
