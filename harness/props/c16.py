"""C16 — non-interactive mode is confined to the run that requested it.  Model A."""
from __future__ import annotations

from .. import common, lifecycle
from . import _life

KINDS = {'pc', 'ce', 'cmd', 'ret', 'blocked'}


def oracle_serial(r: dict) -> list[str]:
    msgs = []
    cont_run = False      # a run started by an accepted non-interactive request is in flight
    started = False
    for op, rep in zip(r['ops'], r['impl']):
        if rep == 'skipped':
            continue
        g = lifecycle.group(rep)
        toks = rep.split()
        w = op.split()[0]
        if w == 'start' and 'ret:start:ok' in toks:
            started = True
        accepted_cont = w in ('rac', 'rcw') and any(t.startswith('cs:') for t in toks)
        if accepted_cont:
            cont_run = True
        ncmd = sum(1 for t in toks if t == 'cmd')
        if w == 'cmd':
            ncmd -= 1 if 'ret:send_pdb_command:ok' in toks else 0
        if ncmd > 0 and not cont_run:
            msgs.append(f'{ncmd} command(s) reached the child of a run started with plain run() ({op!r}): it was auto-answered')
        if w == 'prompt' and cont_run and 'lc=1' in rep and ncmd == 0:
            msgs.append('a prompt of a non-interactive run was not answered')
        if 'ps:finished' in toks or g['st'][0] != 'running':
            cont_run = False          # a non-interactive run is in flight only while the state is 'running'
        ce = g['ce'][0]
        if started and ce != 'E':
            if (ce == '1') != cont_run:
                msgs.append(f'continuous_enabled is {ce} after {op!r}; a non-interactive run is {"" if cont_run else "not "}in flight')
    return msgs


def run(chk: common.Check) -> None:
    chk.cov.rule = ('serial histories (as C01) mixing run, run_and_continue, run_continue_and_wait, reset, close — accepted or refused — with the '
                    'simulated child emitting prompts: a continuous run\'s prompt must be answered by the Continue plugin, an interactive run\'s '
                    'prompt must stay unanswered; observables: continuous_enabled after every operation, the flag\'s publications, commands '
                    'reaching the child; compared with the Lean model. Non-trivial: a non-interactive request was refused or followed by a plain '
                    'run; distinct = distinct (options, history, schedule kind).')
    chk.assumptions += ['serial histories']
    L = 3 if chk.tier == 'quick' else 4
    scen = _life.gen_serial(chk, L, 2500 if chk.tier == 'quick' else 30000)
    rows = _life.run_serial(chk, scen)
    _life.coverage(chk, rows, lambda r: any(o in ('rac', 'rcw') for o in r['ops']) and 'run' in r['ops'])
    chk.cov.exhaustive = True
    chk.cov.extra['exhaustive_scope'] = f'all serial histories of length ≤ {L} over {_life.ALPHABET}'
    oracle_fail = []
    for r in rows:
        if r['error']:
            oracle_fail.append(({'init': r['init'], 'ops': r['ops']}, [f'scenario failed: {r["error"]}'], None))
            continue
        m = oracle_serial(r)
        if m:
            oracle_fail.append(({'init': r['init'], 'ops': r['ops'], 'schedule': r['schedule'], 'implementation': r['impl']}, m, None))
    dis = _life.compare(rows, KINDS)
    _life.finish(chk, 'C16', oracle_fail, dis, 'continuous flag, its publications, commands reaching the child')
