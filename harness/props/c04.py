"""C04 — tracing is transparent: the script computes what it would untraced.  Models K/K2 (theorems `NLV.Props.C04`).

The theorems carry traceback cleaning and stdout pass-through.  That CPython computes the same thing with the trace
function installed is checked differentially: generated programs × statement form {source text, path, callable, code
object} × command policy × trace_threads × trace_modules, the child's real trace machinery in-process against an untraced
reference execution (per-entity stdout, return value, uncaught exception and its traceback); the traceback shape
hypothesis of the theorems is checked on every exception the sweep produces; a few cases through the real spawn child.
"""
from __future__ import annotations

import random
import re
from typing import Any, Optional

from .. import common, progs
from . import _trace

POOL = re.compile(r'(asyncio|ThreadPoolExecutor-\d+)_\d+')
CORPUS = [
    "v6 = 0\nwhile v6 < 2:\n    v6 += 1\n    try:\n        raise KeyError('e1')\n    except KeyError as err:\n        print('caught')\n",
    "def f():\n    v6 = 0\n    while v6 < 2:\n        v6 += 1\n        try:\n            raise KeyError('e1')\n        except KeyError as err:\n"
    "            print('caught')\nf()\nx = 1\nprint('after', x)\n",
    "for i in range(2):\n    try:\n        1 // 0\n    except ZeroDivisionError as err:\n        print('caught', i)\n",
    "import contextlib\nfor i in range(2):\n    with contextlib.suppress(KeyError):\n        raise KeyError(i)\n",
    # exceptions that are not `Exception`s, raised in nested functions of the script: every user frame stays in the traceback
    "def inner():\n    raise KeyboardInterrupt\ndef outer():\n    x = 1\n    inner()\nprint('before')\nouter()\n",
    "import sys\ndef inner(n):\n    if n == 0:\n        sys.exit(3)\n    inner(n - 1)\ndef outer():\n    inner(2)\nouter()\n",
    "def gen():\n    yield 1\n    raise GeneratorExit\ndef outer():\n    for v in gen():\n        print(v)\nouter()\n",
]
CALLABLE_TMPL = 'def main():\n{body}\n    return {ret}\n'


def to_callable(src: str, rng: random.Random) -> str:
    body = '\n'.join('    ' + l for l in src.rstrip('\n').split('\n'))
    return CALLABLE_TMPL.format(body=body, ret=rng.choice(['a0', '41', "'done'", '[1, 2]']))


def last_exc_line(fmt_exc: Optional[str]) -> Optional[str]:
    if not fmt_exc:
        return None
    return fmt_exc.strip().splitlines()[-1]


def tb_files(fmt_exc: str) -> list[str]:
    # the LAST traceback of the chain is the one of the reported exception
    part = fmt_exc.split('Traceback (most recent call last):')[-1]
    return re.findall(r'File "([^"]+)", line \d+', part)


# ---- correspondence of model K2 (traceback cleaning) with the real `_remove_frame` + `clean_exception` hook fan-out ----
TAGS = 'rcuns'


def _modnames() -> dict:
    from nextline.spawned import runner
    from nextline.spawned.plugin.plugins import _script, compose
    from nextline.spawned.utils import WithContext
    return {'r': runner.__name__, 'c': compose.__name__, 'u': WithContext.__module__, 'n': 'nextline.spawned.plugin.plugins.pdb_.custom',
            's': _script.__name__}


def real_clean(tags: str, kind: str, hook: Any, names: dict) -> str:
    """Raise an exception of `kind` through real frames whose modules are `tags` (outermost first; the outermost frame catches it the
    way `_compile_and_run` does), run the real clean-up on it, and read back the modules of the traceback that is left."""
    import inspect
    from nextline.spawned.runner import _remove_frame
    E = {'syntax': SyntaxError('invalid syntax'), 'kbd': KeyboardInterrupt(), 'other': ValueError('x')}[kind]
    nxt: Any = None
    for t in reversed(tags[1:]):
        g: dict = {'__name__': names[t], 'nxt': nxt, 'E': E}
        exec('def f():\n    raise E\n' if nxt is None else 'def f():\n    return nxt()\n', g)
        nxt = g['f']
    g = {'__name__': names[tags[0]], 'nxt': nxt, 'E': E, 'rm': _remove_frame, 'clean': hook.hook.clean_exception, 'cur': inspect.currentframe,
         'own': tags[0] == 'r'}
    body = 'raise E' if nxt is None else 'return nxt()'
    exec(f'def f():\n    try:\n        {body}\n    except BaseException as exc:\n        rm(exc=exc, frame=cur() if own else None)\n'
         '        clean(exc=exc)\n        return exc\n', g)
    exc = g['f']()
    back = {v: k for k, v in names.items()}
    out = []
    tb = exc.__traceback__
    while tb:
        out.append(back.get(tb.tb_frame.f_globals.get('__name__'), '?'))
        tb = tb.tb_next
    return ' '.join(out) if out else '-'


def k2_correspondence(chk: common.Check) -> list[str]:
    import itertools
    import queue
    from nextline.spawned.plugin import Hook
    from nextline.spawned.types import RunArg
    names = _modnames()
    hook = Hook(run_arg=RunArg(run_no=1, statement='pass', filename='<string>'), queue_in=queue.Queue(), queue_out=queue.Queue())
    maxlen = 5 if chk.tier == 'quick' else 7
    cases = [(''.join(t), k) for n in range(1, maxlen + 1) for t in itertools.product(TAGS, repeat=n) for k in ('syntax', 'kbd', 'other')]
    lines = [f'clean {k} ' + ' '.join(t) for t, k in cases]
    mo = common.model_batch('tb', lines)
    bad = []
    for (t, k), m in zip(cases, mo):
        chk.cov.count('k2_kind', k)
        r = real_clean(t, k, hook, names)
        if r != m:
            bad.append(f'traceback {" ".join(t)} of a {k} exception: the code leaves [{r}], the model [{m}]')
    chk.cov.count('kinds', 'k2-exhaustive-tracebacks', len(cases))
    chk.cov.extra['k2_scope'] = f'every traceback of ≤ {maxlen} frames over {{runner, compose, utils, other Nextline, user}} × {{SyntaxError, KeyboardInterrupt, other}}: {len(cases)} cases'
    chk.cov.traces_validated = (chk.cov.traces_validated or 0) + len(cases)
    return bad


def compare(sp: dict, r: dict) -> list[str]:
    msgs = []
    ref, t = r['reference'], r['traced']
    if t.get('error'):
        return [f'spawned.run raised {t["error"]}']
    # stdout, per thread/task: the multiset of per-entity texts must be equal (thread names differ between runs)
    def per_entity(writes: list) -> list[str]:
        d: dict = {}
        for k, s in writes:
            d[k] = d.get(k, '') + s
        return sorted(d.values())
    a, b = per_entity(ref['writes']), per_entity(t['writes'])
    if any(POOL.search(x) for x in a + b):
        # which pool thread runs which job is the program's own nondeterminism: compare the lines, pool thread names masked
        a = sorted(POOL.sub('<pool>', l) for x in a for l in x.splitlines(True))
        b = sorted(POOL.sub('<pool>', l) for x in b for l in x.splitlines(True))
    if a != b:
        msgs.append(f"text on the real stdout differs: untraced {per_entity(ref['writes'])!r} vs traced {per_entity(t['writes'])!r}")
    # what was captured (OnWriteStdout) is what was written up to each entity's last newline
    cap: dict = {}
    for e in t['events']:
        if e['_type'] == 'OnWriteStdout':
            cap[e['trace_no']] = cap.get(e['trace_no'], '') + e['text']
    want = sorted(x[:x.rfind('\n') + 1] for x in per_entity(ref['writes']) if '\n' in x)
    # (a callable that lives outside the script module is not traced unless trace_modules is on: nothing is captured for it)
    if sp.get('trace_threads', True) and sp.get('statement_kind') != 'callable' and not any(POOL.search(x) for x in want) and sorted(v for v in cap.values() if v) != want:
        msgs.append(f'captured stdout per trace {sorted(cap.values())!r} vs written per thread/task (to the last newline) {want!r}')
    # return value
    if sp.get('statement_kind') == 'callable' and ref['exc'] is None and t['ret'] != ref['ret']:
        msgs.append(f'return value: untraced {ref["ret"]!r}, traced {t["ret"]!r}')
    # exception
    rexc = ref['exc']
    if rexc is None:
        if t['fmt_exc']:
            msgs.append(f'the traced run raised {last_exc_line(t["fmt_exc"])!r}, the untraced run did not')
    else:
        if not t['fmt_exc']:
            msgs.append(f'the untraced run raised {rexc["type"]}, the traced run did not')
        else:
            line = last_exc_line(t['fmt_exc']) or ''
            if not line.startswith(rexc['type'].split('.')[-1]) and rexc['type'] not in line:
                msgs.append(f'exception differs: untraced {rexc["type"]}: {rexc["str"]!r}, traced {line!r}')
            files = tb_files(t['fmt_exc'])
            if rexc['type'] != 'SyntaxError':
                if not files:
                    msgs.append('the reported exception has no traceback')
                else:
                    if 'nextline' in files[0] and '_script' not in files[0]:
                        msgs.append(f'the traceback does not start in user code but in {files[0]}')
                    bad = [f for f in files if '/nextline/' in f]
                    if bad:
                        msgs.append(f'the traceback contains Nextline frames: {bad[:3]}')
                    # same user frames as untraced (line numbers of the innermost frame)
                    ref_frames = [(f, ln) for f, ln, _ in rexc['frames'] if 'harness/inproc.py' not in f]
                    m = re.findall(r'File "([^"]+)", line (\d+)', t['fmt_exc'].split('Traceback (most recent call last):')[-1])
                    if ref_frames and m and int(m[-1][1]) != ref_frames[-1][1]:
                        msgs.append(f'innermost traceback line: untraced {ref_frames[-1][1]}, traced {m[-1][1]}')
                    # every user frame of the untraced traceback is there, in order (the script's own frames: same file name in both runs)
                    user = lambda fn: fn == '<string>' or fn.endswith('.py') and '/nlv-inproc-' in fn or fn == '<callable>'
                    a = [ln for f, ln in ref_frames if user(f)]
                    b = [int(ln) for f, ln in m if user(f)]
                    if a != b:
                        msgs.append(f'user frames of the traceback (line numbers): untraced {a}, traced {b}')
            else:
                if any('/nextline/' in f for f in files):
                    msgs.append(f'SyntaxError traceback shows Nextline frames: {files[:3]}')
    return msgs


def run(chk: common.Check) -> None:
    chk.cov.rule = ('generated programs (assignments, loops, conditionals, defs, classes, calls, try/except/raise incl. uncaught, generators, lambdas, '
                    'threads, asyncio tasks; two thirds with introspective statements spliced in: eagerly evaluated annotations on functions, classes, dataclasses '
                    'and the module, namespace listings, exception state, closures, generator finalisation) × statement form {source text, path, callable, code object} × policy {step, next, return, until, continue, '
                    'random mixes} × trace_threads × trace_modules, traced in-process vs untraced reference; plus source text / path / callable through '
                    'the real spawn child. Non-trivial: the program prints or raises; distinct = distinct (program, form, policy, options).')
    chk.assumptions += ['“standard output” is the text layer (sys.stdout.write and what is built on it); stderr (e.g. CPython\'s RuntimeWarning for inlined '
                        'comprehensions under a trace function) is outside the statement',
                        'the code-object form cannot be pickled for the spawn child (open finding F-G1): it is exercised in-process only']
    rng = chk.rng
    n1, n2 = (70, 16) if chk.tier == 'quick' else (700, 160)
    specs: list[dict] = []
    base = _trace.gen_specs(chk, n1, n2, with_modules=True)
    for i, s in enumerate(base):
        s = dict(s)
        if s['kind'].startswith('seq'):
            form = ['str', 'code', 'path', 'callable'][i % 4]
            s['statement_kind'] = form
            if i % 3 != 2:
                s['source'] = progs.with_introspection(random.Random(i * 7 + chk.seed), s['source'])
                s['kind'] = 'seq-introspective'
            if form == 'callable':
                s['source'] = to_callable(s['source'], random.Random(i))
        s['decoys'] = False
        s['nonresuming_first'] = False
        specs.append(s)
    # threads printing at the same time under a 1 µs thread-switch interval: the text that reaches the real stdout and the text reported
    specs += [dict(x, want_reference=True) for x in _trace.stress_specs(chk, 4 if chk.tier == 'quick' else 30)]
    # corpus: minimised past failures, every command policy (F-K2: the last bytecode of the script / of a function has no line number)
    for src in CORPUS:
        for pol in _trace.POLICIES + [{'kind': 'random', 'seed': 3, 'choices': ['step', 'until', 'next', 'return']}]:
            for form in ('str', 'path'):
                specs.append({'source': src, 'policy': pol, 'statement_kind': form, 'kind': 'corpus', 'trace_threads': True, 'trace_modules': False,
                              'want_recorder': False})
    # a syntax error in each form that is compiled by the child
    for form in ('str', 'path'):
        specs.append({'source': 'x = (\n', 'policy': {'kind': 'all', 'command': 'next'}, 'statement_kind': form, 'kind': 'syntax-error',
                      'trace_threads': True, 'trace_modules': False, 'want_recorder': False})
    results = _trace.run_specs(specs)
    oracle_fail = []
    for r in results:
        sp = r['spec']
        if 'harness_error' in r:
            if r['harness_error'].startswith('SKIPPED'):
                continue
            oracle_fail.append((sp, [f'the traced run did not complete: {r["harness_error"][:300]}']))
            continue
        ref = r['reference']
        chk.cov.case((sp['source'], sp.get('statement_kind', 'str'), repr(sp['policy']), sp['trace_threads'], sp['trace_modules']),
                     trivial=not ref['writes'] and ref['exc'] is None)
        chk.cov.count('form', sp.get('statement_kind', 'str'))
        chk.cov.count('policy', sp['policy'].get('command', 'random'))
        chk.cov.count('introspective', sp.get('kind') == 'seq-introspective')
        chk.cov.count('outcome', 'raises ' + ref['exc']['type'] if ref['exc'] else ('prints' if ref['writes'] else 'silent'))
        m = compare(sp, r)
        if m:
            oracle_fail.append((sp, m))
    chk.cov.traces_validated = len(results)
    ok = [r for r in results if 'harness_error' not in r]
    if ok:
        chk.cov.sample({'program': ok[0]['spec']['source'], 'form': ok[0]['spec'].get('statement_kind'), 'policy': ok[0]['spec']['policy'],
                        'untraced_stdout': ok[0]['reference']['stdout'][:200], 'traced_stdout': ok[0]['traced']['stdout'][:200]})
    # through the real spawn child
    rs = []
    src = "def f(n):\n    if n == 0:\n        raise KeyError('deep')\n    return f(n - 1)\nprint('start')\nf(2)\n"
    rs.append({'statement': src, 'policy': {'kind': 'all', 'command': 'step'}, 'timeout': 40, 'expect_exc': 'KeyError', 'expect_out': 'start\n'})
    rs.append({'statement': src, 'statement_kind': 'path', 'policy': {'kind': 'all', 'command': 'next'}, 'timeout': 40, 'expect_exc': 'KeyError',
               'expect_out': 'start\n'})
    rs.append({'statement': "def main():\n    print('in callable')\n    return [1, 2]\n", 'statement_kind': 'callable',
               'policy': {'kind': 'all', 'command': 'next'}, 'timeout': 40, 'expect_ret': [1, 2], 'expect_out': 'in callable\n'})
    # SIGINT while the main thread sits at a prompt (inside Nextline's trace function): the reported KeyboardInterrupt is cut back to user frames
    rs.append({'statement': 'import time\nprint("start")\nx = 1\ny = 2\nz = 3\n', 'policy': {'kind': 'all', 'command': 'next'}, 'timeout': 40,
               'signal': {'kind': 'interrupt', 'at_prompt': 3}, 'expect_exc': 'KeyboardInterrupt', 'expect_out': 'start\n'})
    # the script ends while thousands of its events are still on their way to the main process: the result is still the script's
    rs.append({'statement': "def main():\n    s = 0\n    for i in range(3000):\n        s += i\n    return s\n", 'statement_kind': 'callable',
               'mode': 'continuous', 'trace_modules': True, 'timeout': 90, 'expect_ret': 4498500, 'expect_out': ''})
    rs.append({'statement': "s = 0\nfor i in range(3000):\n    s += i\nraise ValueError(f'done: {s}')\n", 'mode': 'continuous', 'timeout': 90,
               'expect_exc': 'ValueError: done: 4498500', 'expect_out': ''})
    rs.append({'statement': "print('code object')\n", 'statement_kind': 'code', 'policy': {'kind': 'all', 'command': 'next'}, 'timeout': 40,
               'expect_out': 'code object\n'})
    # a script FILE with a module next to it, a module of the same name earlier on sys.path, and the script's directory on sys.path already
    # (PYTHONPATH, an inherited sys.path): run directly, the script's directory comes first and the script imports its own sibling
    for on_path in (True, False):
        for pol in ({'kind': 'all', 'command': 'next'}, {'kind': 'all', 'command': 'continue'}):
            rs.append({'statement': "import helper\nhelper.hello()\nprint('end')\n", 'statement_kind': 'path', 'policy': pol, 'timeout': 40,
                       'modules_env': {'siblings': {'helper': "def hello():\n    print('proj')\n"},
                                       'shadows': {'helper': "def hello():\n    print('lib')\n    raise RuntimeError('wrong module imported')\n"},
                                       'script_dir_on_path': on_path},
                       'expect_out': 'proj\nend\n'})
    for r in common.real_runs(rs, jobs=7, hard_timeout=150):
        sp = r['spec']
        chk.cov.case(('real', sp.get('statement_kind', 'str'), repr(sp.get('signal'))))
        chk.cov.count('form', 'real-' + sp.get('statement_kind', 'str'))
        rec = r['rec']
        m = []
        if rec is None or not rec.get('finished'):
            m.append(f'real run did not finish: {(rec or {}).get("errors")}')
        else:
            if r['real_stdout'] != sp['expect_out']:
                m.append(f'real stdout {r["real_stdout"]!r}, untraced it is {sp["expect_out"]!r}')
            if 'expect_exc' in sp:
                exc = rec.get('exception') or ''
                if sp['expect_exc'] not in exc:
                    m.append(f'expected uncaught {sp["expect_exc"]}, reported {exc[-150:]!r}')
                # the traceback of the reported exception itself (the last of the chain: a KeyboardInterrupt delivered inside the trace
                # function carries that occurrence as its __context__, which has no untraced counterpart and is not what clean_exception is about)
                files = tb_files(exc)
                if not files or any('/nextline/' in f or '/pluggy/' in f or f.endswith(('/bdb.py', '/pdb.py', '/cmd.py')) for f in files):
                    m.append(f'the traceback of the reported exception is empty or contains Nextline frames: {files}')
            if 'expect_ret' in sp and rec.get('result') != sp['expect_ret']:
                m.append(f'result {rec.get("result")!r}, the callable returns {sp["expect_ret"]!r}')
        if m:
            sig = 'code_object_statement_under_spawn' if sp.get('statement_kind') == 'code' else None
            if sig:
                chk.violation(f'C04 oracle ({sig}): {m[0]}', {'spec': sp, 'oracle_messages': m}, signature=sig)
            else:
                oracle_fail.append((sp, m))
    for sp, msgs in oracle_fail[:5]:
        chk.violation(f'C04 oracle: {msgs[0]}', {'spec': sp, 'oracle_messages': msgs[:10]})
    broken = common.proof_broken(chk)
    try:
        k2 = k2_correspondence(chk)
    except Exception as e:  # noqa
        k2 = [f'K2 correspondence could not run: {type(e).__name__}: {e}']
    if k2:
        chk.cov.disagreements_checked = len(k2)
        broken.append(f'correspondence K2 broken ({len(k2)} tracebacks): {k2[0]}')
    if broken and not oracle_fail:
        chk.violation('C04: ' + ' | '.join(broken[:3]), {'no_longer_checks': broken}, no_input=True)
