"""C12 — plugins see each run's hooks in protocol order with a valid context.  Model A."""
from __future__ import annotations

import re

from .. import common
from . import _life

KINDS = {'hk', 'ret', 'blocked'}
# per run: init-run (initialized, run_arg) · [start-run (running, run_arg) · prompts* · end-run (running, run_arg) · finished (finished, no run_arg)]
PROTO = re.compile(r'^(I+(SP*EF)?)*(I+SP*)?$')   # the last run of a history may still be in progress
CODE = {'on_initialize_run/initialized/1': 'I', 'on_start_run/running/1': 'S', 'on_start_prompt/running/1': 'P',
        'on_end_run/running/1': 'E', 'on_finished/finished/0': 'F'}


def oracle_serial(r: dict) -> list[str]:
    msgs = []
    word = ''
    for op, rep in zip(r['ops'], r['impl']):
        toks = rep.split()
        hooks = [t[3:] for t in toks if t.startswith('hk:')]
        refused = any(t.startswith('ret:') and not t.endswith(':ok') for t in toks)
        if refused and hooks and not any(t.startswith('ret:') and t.endswith(':ok') for t in toks):
            msgs.append(f'{op!r} was refused but hooks were called: {hooks}')
        for h in hooks:
            c = CODE.get(h)
            if c is None:
                msgs.append(f'hook call with wrong state/context: {h}')
                c = '?'
            word += c
    # a second plugin registered / unregistered by reg2 / unreg2: from the next hook call on it receives what the first one receives
    registered = False
    for op, rep in zip(r['ops'], r['impl']):
        toks = rep.split()
        if 'r2:REFUSED' in toks:
            msgs.append(f'{op!r}: registering a plugin (again) between runs was refused')
        if 'r2:NOT-FOUND' in toks:
            msgs.append(f'{op!r}: unregistering a registered plugin failed')
        if op == 'reg2' and rep != 'skipped':
            registered = True
            continue
        if op == 'unreg2' and rep != 'skipped':
            registered = False
            continue
        h1 = [t[3:].split('/')[0] for t in toks if t.startswith('hk:')]
        h2 = [t[3:] for t in toks if t.startswith('h2:')]
        if registered and sorted(h1) != sorted(h2):
            msgs.append(f'{op!r}: the plugin registered later received {h2}, the first one {h1}')
        if not registered and h2:
            msgs.append(f'{op!r}: an unregistered plugin still received {h2}')
    if not PROTO.match(word.replace('?', 'X')):
        msgs.append(f'hook log {word!r} does not follow the protocol (I S P* E F per run)')
    return msgs


def cancel_caller_case(delay: int, slow: int) -> dict:
    """The task that called run() is cancelled `delay` loop steps after the call (a time-out around it) while another plugin's start-run hook
    is still busy (it suspends `slow` times).  A recording plugin must still see a protocol-conforming hook sequence: if it received start-run,
    the run is under way — the events, end-run (state 'running', arguments present) and finished follow once the child exits."""
    import asyncio
    from typing import Any
    from .. import fakes, lifecycle, loop as ctl
    from nextline.spawned import RunResult

    async def main() -> dict:
        from nextline.plugin.spec import hookimpl
        sc = lifecycle.Scenario(0, 1, False, False)
        await sc.setup()
        nl = sc.nl
        log: list = []

        def rec(name: str, context: Any) -> None:
            log.append((name, nl.state, context.run_arg is not None))

        class Recorder:
            @hookimpl
            async def on_initialize_run(self, context: Any) -> None:
                rec('I', context)

            @hookimpl
            async def on_start_run(self, context: Any) -> None:
                rec('S', context)

            @hookimpl
            async def on_end_run(self, context: Any) -> None:
                rec('E', context)

            @hookimpl
            async def on_finished(self, context: Any) -> None:
                rec('F', context)

        class Slow:
            @hookimpl
            async def on_start_run(self, context: Any) -> None:
                for _ in range(slow):
                    await asyncio.sleep(0)
        nl.register(Slow())
        nl.register(Recorder())
        await sc.op('start')
        t = asyncio.ensure_future(nl.run())
        for _ in range(delay):
            await asyncio.sleep(0)
        t.cancel()
        await lifecycle.settle()
        out: dict = {'delay': delay, 'slow': slow, 'state': nl.state, 'live': len(sc.world.live()),
                     'caller': 'cancelled' if t.cancelled() else (f'raised {type(t.exception()).__name__}' if t.done() and t.exception() else
                                                                 ('returned' if t.done() else 'still waiting'))}
        for c in sc.world.live():
            c.exit(RunResult(ret=5), exitcode=0)
        await lifecycle.settle()
        out.update(state_after=nl.state, live_after=len(sc.world.live()), hooks=list(log))
        for c in sc.world.live():
            c.exit(RunResult(ret=None), exitcode=0)
        try:
            await asyncio.wait_for(nl.close(), timeout=5)
        except BaseException:  # noqa
            pass
        t.cancel()
        return out
    fakes.install()
    try:
        return ctl.run(main, ctl.Fifo())
    except (Exception, ctl.StepBudgetExceeded) as e:  # noqa
        return {'delay': delay, 'slow': slow, 'error': f'{type(e).__name__}: {e}'}


def cancel_caller_oracle(r: dict) -> list[str]:
    if 'error' in r:
        return [f'scenario failed: {r["error"]}']
    who = (f"the task that called run() was cancelled {r['delay']} loop step(s) after the call, another plugin's start-run hook suspending {r['slow']} time(s) "
           f"(caller: {r['caller']})")
    word = ''.join(h[0] for h in r['hooks'])
    m = []
    if not re.fullmatch(r'I(SEF)?', word):
        m.append(f'{who}; after the child exited the recording plugin has received {word!r} (expected initialise-run, and if start-run then end-run and finished, each once)')
    want = {'I': ('initialized', True), 'S': ('running', True), 'E': ('running', True), 'F': ('finished', False)}
    for name, state, has_arg in r['hooks']:
        if (state, has_arg) != want[name]:
            m.append(f"{who}; hook {name} was called in state {state!r} with the run's arguments {'present' if has_arg else 'absent'}")
    if r['live_after']:
        m.append(f"{who}; {r['live_after']} child process(es) were started after the scenario had let the run's child exit")
    return m


def run(chk: common.Check) -> None:
    chk.cov.rule = ('serial histories (as C01) incl. run/reset cycles, every way a run ends in the simulated child (result, no result, signals), '
                    'prompts during the run; a recording plugin registered through Nextline.register samples Nextline.state and context.run_arg '
                    'inside every hook; compared with the Lean model on the hook log; overlapping calls (oracle only). Non-trivial: at least one '
                    'complete run; distinct = distinct (options, history, schedule kind).')
    chk.assumptions += ['hooks do not raise; serial histories', 'implementations of one hook call are atomic steps in any order (F2/F3): random schedules reorder them']
    L = 3 if chk.tier == 'quick' else 4
    scen = _life.gen_serial(chk, L, 1500 if chk.tier == 'quick' else 20000)
    rows = _life.run_serial(chk, scen)
    _life.coverage(chk, rows, lambda r: any('hk:on_finished' in x for x in r['impl']))
    chk.cov.exhaustive = True
    chk.cov.extra['exhaustive_scope'] = f'all serial histories of length ≤ {L} over {_life.ALPHABET}'
    oracle_fail = []
    for r in rows:
        if r['error']:
            oracle_fail.append(({'init': r['init'], 'ops': r['ops']}, [f'scenario failed: {r["error"]}'], None))
            continue
        m = oracle_serial(r)
        if m:
            oracle_fail.append(({'init': r['init'], 'ops': r['ops'], 'schedule': r['schedule'], 'implementation': r['impl']}, m, None))
    dis = _life.compare(rows, KINDS)
    for slow in (0, 3, 8):
        for delay in (0, 1, 2, 3, 4, 6, 9, 12):
            r = cancel_caller_case(delay, slow)
            chk.cov.case(('caller-cancelled', delay, slow))
            chk.cov.count('kinds', 'caller-of-run-cancelled-while-a-start-run-hook-is-busy')
            m = cancel_caller_oracle(r)
            if m:
                oracle_fail.append(({'cancel_caller': r}, m, None))
    # real spawn children, every way of ending incl. a hard exit with a positive status: the protocol seen by a registered plugin
    rs = [{'statement': 'x = 1\n', 'policy': {'kind': 'all', 'command': 'next'}, 'timeout': 90, 'why': 'return'},
          {'statement': 'import os, time\ntime.sleep(0.3)\nos._exit(1)\n', 'policy': {'kind': 'all', 'command': 'next'}, 'timeout': 90, 'why': 'os._exit(1)'},
          {'statement': "raise ValueError('x')\n", 'policy': {'kind': 'all', 'command': 'next'}, 'timeout': 90, 'why': 'raise'},
          {'statement': 'import time\ntime.sleep(0.2)\nx = 1\n', 'policy': {'kind': 'all', 'command': 'next'}, 'timeout': 90,
           'signal': {'kind': 'kill', 'at_prompt': 1}, 'why': 'kill'}]
    for r in common.real_runs(rs, jobs=4, hard_timeout=200):
        sp, rec = r['spec'], r['rec']
        chk.cov.case(('real', sp['why']))
        chk.cov.count('kinds', 'real-child-' + sp['why'])
        if rec is None or not rec.get('finished'):
            sig = None
            from .c02 import lock_held_by_dead_child
            if sp['why'] in ('os._exit(1)', 'kill') and lock_held_by_dead_child(rec):
                sig = 'child_died_holding_queue_write_lock'     # open finding F-G3 (≈ 1 hard exit in 6 hangs), recognised by the parent's stacks
            oracle_fail.append(({'real_run': sp}, [f"real run ending by {sp['why']} did not finish: {(rec or {}).get('errors')}"], sig))
            continue
        word = ''.join({'on_initialize_run': 'I', 'on_start_run': 'S', 'on_end_run': 'E', 'on_finished': 'F'}.get(h['hook'], 'p' if h['hook'].startswith('on_') else '')
                       for h in rec['hooks'])
        m = []
        if not re.fullmatch(r'ISp*EF', word):
            m.append(f"run ending by {sp['why']}: the plugin received {word!r}, expected initialise-run, start-run, events, end-run, finished, each once")
        for h in rec['hooks']:
            want = {'on_initialize_run': ('initialized', True), 'on_start_run': ('running', True), 'on_end_run': ('running', True), 'on_finished': ('finished', False)}.get(h['hook'])
            if want and (h['state'], h['run_arg']) != want:
                m.append(f"{h['hook']} was called in state {h['state']} with run_arg {'present' if h['run_arg'] else 'absent'}")
        if m:
            oracle_fail.append(({'real_run': sp}, m, None))
    # a hook that is busy for seconds on one event while the run comes to its end (script ends / child is killed with events queued behind it)
    from . import _lag
    lag_specs = _lag.specs()
    for sp, r in zip(lag_specs, common.real_runs(lag_specs, jobs=2, hard_timeout=150)):
        chk.cov.case(('real-lagging-hook', sp['lag']))
        chk.cov.count('kinds', 'real-child-hook-busy-at-the-end-' + sp['lag'])
        found = _lag.oracle(sp, r)
        msgs = [m for a in ('protocol', 'delivery') for m in found[a]]
        if msgs:
            oracle_fail.append(({'real_run': sp}, msgs, None))
    _life.finish(chk, 'C12', oracle_fail, dis, 'hook log')
