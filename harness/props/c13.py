"""C13 — stdout captured in whole lines, right key.  Model K (`NLV.Model.Lines`), theorems `NLV.Props.C13`.

Tie: exact correspondence of `peek_stdout_by_key` (the real function, in-process) with the Lean model on
write sequences; real-child programs printing from threads and tasks against an oracle.
"""
from __future__ import annotations

import io
import itertools
import multiprocessing as mp
import random
import re
import sys
from typing import Any, Optional

from .. import common, progs

FRAGS = ['a', '\n', 'a\n', '\na', 'a\nb', '']
KEYS = [1, 2, None]


def enc(t: str) -> str:
    return ','.join(str(ord(c)) for c in t) if t else '-'


def lines_of(ws: list) -> list[str]:
    return ['reset'] + [f"w {'-' if k is None else k} {enc(t)}" for k, t in ws] + ['real']


def run_impl(ws: list) -> tuple[list[str], list[str]]:
    from nextline.spawned.plugin.plugins.peek import peek_stdout_by_key
    real = io.StringIO()
    old = sys.stdout
    cur: list = [None]
    emitted: list = []
    out = ['ok']
    sys.stdout = real
    try:
        with peek_stdout_by_key(key_factory=lambda: cur[0], callback=lambda k, l: emitted.append((k, l))):
            for k, t in ws:
                cur[0] = k
                n = len(emitted)
                sys.stdout.write(t)
                new = emitted[n:]
                if not new:
                    out.append('none')
                elif len(new) == 1:
                    out.append(f'emit:{new[0][0]}:{enc(new[0][1])}')
                else:
                    out.append('multi:' + ';'.join(f'{a}:{enc(b)}' for a, b in new))
    finally:
        sys.stdout = old
    out.append(enc(real.getvalue()))
    # oracle, from the property statement
    msgs = []
    for key in {k for k, _ in ws if k is not None}:
        w = ''.join(t for k, t in ws if k == key)
        pieces = [p for k, p in emitted if k == key]
        for p in pieces:
            if not p.endswith('\n'):
                msgs.append(f'key {key}: piece {p!r} does not end at a line end')
        exp = w[:w.rfind('\n') + 1]
        if ''.join(pieces) != exp:
            msgs.append(f'key {key}: reported {"".join(pieces)!r}, written up to the last newline {exp!r}')
    if any(k is None for k, _ in emitted):
        msgs.append('a write without a current trace was reported')
    if real.getvalue() != ''.join(t for _, t in ws):
        msgs.append('the real stdout did not receive exactly what was written')
    return out, msgs


def _shard(scen: list) -> list:
    res = []
    for idx, ws in scen:
        try:
            out, msgs = run_impl(ws)
        except Exception as e:
            out, msgs = [f'HARNESS:{type(e).__name__}:{e}'], []
        res.append((idx, out, msgs))
    return res


def gen(chk: common.Check) -> list:
    rng = chk.rng
    scen: list = [
        [(1, 'x\ny')],                                   # F-K1 witness (fixed)
        [(1, 'a\nb'), (1, 'c\n')],
        [(1, 'A1-'), (2, 'B1\n'), (1, 'A2\n')],          # two keys interleaved inside one thread
        [(None, 'zz\n'), (1, 'q'), (None, '\n'), (1, '\n')],
    ]
    maxlen = 3 if chk.tier == 'quick' else 4
    alpha = [(k, f) for k in KEYS for f in FRAGS]
    for L in range(1, maxlen + 1):
        for ws in itertools.product(alpha, repeat=L):
            scen.append(list(ws))
    pool = 'abé漢\U0001F600 \t\r'
    for _ in range(2000 if chk.tier == 'quick' else 30000):
        n = rng.randint(1, 30)
        ws = []
        for _ in range(n):
            k = rng.choice([1, 2, 3, 7, None])
            r = rng.random()
            if r < 0.1:
                t = ''
            elif r < 0.15:
                t = rng.choice(pool) * rng.randint(500, 5000) + rng.choice(['', '\n'])
            else:
                t = ''.join(rng.choice(pool + '\n\n') for _ in range(rng.randint(1, 8)))
            ws.append((k, t))
        scen.append(ws)
    return scen


# --- real child ------------------------------------------------------------------------------

def gen_program(rng: random.Random) -> tuple[str, dict]:
    """A script in which the main thread, threads and asyncio tasks write tagged text in partial writes.
    Returns (source, expected text per entity tag)."""
    tags = ['M']
    nthreads = rng.randint(0, 2)
    ntasks = rng.randint(0, 3)
    tags += [f'T{i}' for i in range(nthreads)] + [f'A{i}' for i in range(ntasks)]
    pool = 'xyz é漢'
    writes: dict = {}
    for tag in tags:
        ws = []
        for j in range(rng.randint(1, 5)):
            body = f'{tag}{j}' + ''.join(rng.choice(pool) for _ in range(rng.randint(0, 4)))
            r = rng.random()
            if r < 0.45:
                ws.append(body + '\n')
            elif r < 0.65:
                ws.append(body)
            elif r < 0.8:
                ws.append(body + '\n' + f'{tag}{j}b')
            elif r < 0.9:
                ws.append('\n')
            else:
                ws.append(body + '\n\n')
        writes[tag] = ws
    src = ['import sys, threading, asyncio, time', f'W = {writes!r}', '']
    src += ['def emit(tag):', '    for w in W[tag]:', '        sys.stdout.write(w)', '        time.sleep(0.001)', '']
    src += ['async def aemit(tag):', '    for w in W[tag]:', '        sys.stdout.write(w)', '        await asyncio.sleep(0)', '']
    src += ['async def amain():', '    await asyncio.gather(' + ', '.join(f"aemit('A{i}')" for i in range(ntasks)) + ')', '']
    src += [f"ths = [threading.Thread(target=emit, args=('T' + str(i),)) for i in range({nthreads})]", 'for t in ths:', '    t.start()']
    src += ["emit('M')"]
    if ntasks:
        src += ['asyncio.run(amain())']
    src += ['for t in ths:', '    t.join()']
    return '\n'.join(src) + '\n', writes


def check_real(r: dict, expected: dict) -> list[str]:
    msgs = []
    rec = r['rec']
    if rec is None or not rec.get('finished'):
        return [f'the run did not finish: rc={r["rc"]} {(rec or {}).get("errors")} {r["stderr"][-300:]}']
    by_trace: dict = {}
    for tn, text, _ in rec['stdout']:
        by_trace.setdefault(tn, []).append(text)
        if not text.endswith('\n'):
            msgs.append(f'trace {tn}: piece {text!r} does not end at a line end')
        for marker in ('(Pdb)', '--Return--', '--Call--', '-> '):
            if marker in text:
                msgs.append(f'trace {tn}: debugger text {marker!r} reported as script output: {text!r}')
    exp_by_text = {}
    for tag, wl in expected.items():
        w = ''.join(wl)
        e = w[:w.rfind('\n') + 1]
        if e:
            exp_by_text.setdefault(e, []).append(tag)
    got = sorted(''.join(v) for v in by_trace.values())
    want = sorted(e for e, tags in exp_by_text.items() for _ in tags)
    if got != want:
        msgs.append(f'per-trace reported text {got!r} != per-entity text written up to the last newline {want!r}')
    # real stdout: every entity's characters, in that entity's order
    real = r['real_stdout']
    for tag, wl in expected.items():
        # every single write of an entity is atomic on the real stdout and appears in that entity's order
        frs = [f for w in wl for f in w.split('\n') if f]
        pos = 0
        for f in frs:
            i = real.find(f, pos)
            if i < 0:
                msgs.append(f'real stdout misses {f!r} of {tag} (in order)')
                break
            pos = i + len(f)
    if real.count('\n') != sum(w.count('\n') for wl in expected.values() for w in wl):
        msgs.append('real stdout: number of newlines differs from what the script wrote')
    return msgs


POOL = re.compile(r'(asyncio|ThreadPoolExecutor-\d+)_\d+')      # names of executor threads (as in c04)


def pool_oracle(t: dict, trace_threads: bool) -> list[str]:
    """C13's statement on a traced run of a `progs.pool_reuse` program.  Ground truth: the writes that reached the real stdout, keyed
    by the writing thread/task.  With thread tracing, every writer's text (up to its last newline) is what was reported for one
    trace.  Without it, the executor threads are not traced: what they wrote is reported under no trace, and the traced writers
    (main thread, its tasks) still get exactly their own text."""
    from . import _trace
    if trace_threads:
        return _trace.captured_oracle(t)
    msgs = []
    untraced = [(k, s) for k, s in t['writes'] if POOL.fullmatch(k)]
    reported = [(e['trace_no'], e['text']) for e in t['events'] if e['_type'] == 'OnWriteStdout']
    for k, s in untraced:
        frag = s.strip('\n ')
        if len(frag) < 3:        # (a bare newline or separator says nothing about who wrote it)
            continue
        hit = next(((tn, x) for tn, x in reported if frag in x), None)
        if hit:
            msgs.append(f'thread tracing is off, yet text written by the untraced executor thread {k} ({frag!r}) was reported for trace {hit[0]}: {hit[1]!r}')
            break
    msgs += _trace.captured_oracle(dict(t, writes=[(k, s) for k, s in t['writes'] if not POOL.fullmatch(k)]))
    return msgs


def outliving_oracle(t: dict, info: dict) -> list[str]:
    """C13's statement on a traced run of a `progs.outliving_writers` program (threads that are not joined and write after the script's
    main code has returned; they are traced, the run lasts until they end).  Ground truth as everywhere: the writes that reached the real
    stdout, keyed by the writing thread.  The real stdout received every piece each thread wrote, in that thread's order, and every
    writer's text up to its last newline is what was reported for one trace."""
    from . import _trace
    msgs = []
    per: dict = {}
    for k, s in t['writes']:
        per.setdefault(k, []).append(s)
    flat = [''.join(v) for v in per.values()]
    for tag, wl in info['writes'].items():
        w = ''.join(wl)
        if w not in flat:
            msgs.append(f'the real stdout did not receive what {"the main thread" if tag == "M" else "the not-joined thread " + tag} wrote, {w!r}; '
                        f'received per writer: {flat!r}')
            break
    for m in _trace.captured_oracle(t):
        reported = ''.join(e['text'] for e in t['events'] if e['_type'] == 'OnWriteStdout')
        missing = [p for tag, wl in info['late'].items() for p in ''.join(wl)[:''.join(wl).rfind('\n') + 1].splitlines() if p and p not in reported]
        if missing:
            m += f'; lines written by a not-joined thread after the last statement of the script and reported for no trace: {missing!r}'
        msgs.append(m)
    return msgs


def run(chk: common.Check) -> None:
    chk.cov.rule = ('write sequences (key|None, text): all sequences up to a fixed length over 6 text fragments × 3 keys, then seeded '
                    'random unicode/long ones, executed on the real peek_stdout_by_key and on the Lean model (replies compared '
                    'line by line); plus generated scripts printing from main thread/threads/asyncio tasks through the real child, and 3–6 threads '
                    'writing partial lines at the same time under a 1 µs thread-switch interval through the real trace machinery in-process; and asyncio '
                    'scripts that hand jobs to the default executor one after the other (to_thread, run_in_executor, call_soon, call_soon_threadsafe, '
                    'copy_context().run; the pooled thread is reused), task, callbacks and worker writing full and partial lines, with and without thread tracing; and '
                    'scripts that start threads and do not join them, every thread inside its traced function before the script ends and writing full and partial '
                    'lines only after the last statement of the script has run (in-process under continue/next/step, and through the real child). '
                    'Non-trivial: at least one piece was reported; distinct = distinct write sequence.')
    chk.assumptions += ['which trace number is current at a write (the key) is model D1 / property C06',
                        '“writes to standard output” = sys.stdout.write and what is built on it (print, writelines)']
    scen = gen(chk)
    n = 16
    shards: list = [[] for _ in range(n)]
    for i, ws in enumerate(scen):
        shards[i % n].append((i, ws))
    with mp.get_context('fork').Pool(n) as pool:
        results = pool.map(_shard, shards)
    impl = {}
    for sh in results:
        for idx, out, msgs in sh:
            impl[idx] = (out, msgs)
    model_out = None
    model_err = None
    try:
        model_out = common.model_batch('lines', [ln for ws in scen for ln in lines_of(ws)])
    except Exception as e:
        model_err = f'{type(e).__name__}: {e}'
    pos = 0
    disagreements = []
    oracle_fail = []
    for idx, ws in enumerate(scen):
        out, msgs = impl[idx]
        if out and out[0].startswith('HARNESS'):
            raise RuntimeError(out[0])
        chk.cov.case(repr(ws), trivial=not any(o.startswith('emit') for o in out))
        for o in out[1:-1]:
            chk.cov.count('replies', o.split(':')[0])
        chk.cov.count('length', len(ws))
        if msgs:
            oracle_fail.append((ws, msgs, out))
        if model_out is not None:
            nl = len(ws) + 2
            mo = model_out[pos:pos + nl]
            pos += nl
            if mo != out:
                k = next(i for i, (a, b) in enumerate(zip(mo, out)) if a != b)
                disagreements.append((ws, k, mo[k], out[k]))
        if idx in (0, 2):
            chk.cov.sample({'writes': ws, 'impl_replies': out})
    chk.cov.traces_validated = len(scen) if model_out is not None else 0
    chk.cov.exhaustive = True
    chk.cov.extra['exhaustive_scope'] = f'all write sequences of length ≤ {3 if chk.tier == "quick" else 4} over {FRAGS!r} × keys {KEYS!r}'

    # real child
    nreal = 12 if chk.tier == 'quick' else 120
    specs = []
    exps = []
    for i in range(nreal):
        rng = random.Random(chk.seed * 1000 + i)
        src, exp = gen_program(rng)
        pol = [{'kind': 'all', 'command': 'continue'}, {'kind': 'all', 'command': 'next'},
               {'kind': 'random', 'seed': i, 'choices': ['next', 'step', 'next', 'return', 'until']}][i % 3]
        specs.append({'statement': src, 'trace_threads': True, 'policy': pol, 'timeout': 60})
        exps.append(exp)
    # not-joined threads writing after the script's last statement (progs.outliving_writers), through the real child: the child's teardown
    # starts when the main code returns, while these threads are still traced and still writing
    nlate = 0
    for i in range(2 if chk.tier == 'quick' else 12):
        src, info = progs.outliving_writers(random.Random(chk.seed * 1000 + 500 + i), nthreads=1 + i % 2)
        pol = [{'kind': 'all', 'command': 'next'}, {'kind': 'all', 'command': 'continue'}, {'kind': 'all', 'command': 'step'}][i % 3]
        specs.append({'statement': src, 'trace_threads': True, 'policy': pol, 'timeout': 60})
        exps.append(info['writes'])
        nlate += 1
    real = common.real_runs(specs, jobs=12 + nlate if chk.tier == 'quick' else 12, hard_timeout=120)
    for j, (r, exp, spec) in enumerate(zip(real, exps, specs)):
        late = j >= nreal
        chk.cov.case(('real', spec['statement']))
        chk.cov.count('kinds', 'real-child-outliving-writers' if late else 'real-child')
        msgs = check_real(r, exp)
        if msgs and late:
            msgs[0] = f'threads that outlive the script (not joined, real child, policy {spec["policy"]["command"]}): ' + msgs[0]
        if msgs:
            oracle_fail.append(({'script': spec['statement'], 'policy': spec['policy']}, msgs,
                                {'stdout': (r['rec'] or {}).get('stdout'), 'real_stdout': r['real_stdout']}))
    if real:
        chk.cov.sample({'real_child_script': specs[0]['statement'], 'reported': (real[0]['rec'] or {}).get('stdout')})

    # a second run of the same object: what it prints is reported for that run's traces (text per (run number, trace number))
    two = [{'statement': 'import threading, sys\ndef w():\n    sys.stdout.write("th-")\n    print("line")\nt = threading.Thread(target=w)\nt.start()\n'
                         't.join()\nsys.stdout.write("ma")\nprint("in")\n', 'trace_threads': True, 'policy': {'kind': 'all', 'command': 'next'},
            'timeout': 40, 'second_run': True, 'second_timeout': 30}]
    for r in common.real_runs(two, jobs=1, hard_timeout=120):
        rec = r['rec']
        chk.cov.case(('real-two-runs',))
        chk.cov.count('kinds', 'real-child-two-runs')
        if rec is None or rec.get('second_finished') is not True:
            oracle_fail.append(({'script': two[0]['statement'], 'runs': 2}, [f'two runs of one object did not finish: {(rec or {}).get("errors")}'], None))
        else:
            per: dict = {}
            for tn, text, rn in rec['stdout']:
                per[(rn, tn)] = per.get((rn, tn), '') + text
            want = {(1, 1): 'main\n', (1, 2): 'th-line\n', (2, 1): 'main\n', (2, 2): 'th-line\n'}
            if per != want:
                oracle_fail.append(({'script': two[0]['statement'], 'runs': 2}, [f'text reported per (run, trace) over two runs of one object: {per}, expected {want}'], None))

    # several threads inside the stdout hook at the same time (lines assembled from partial writes), 1 µs thread-switch interval,
    # through the real trace machinery in-process: what each thread wrote vs what was reported for its trace
    from . import _trace
    sspecs = _trace.stress_specs(chk, 8 if chk.tier == 'quick' else 60)
    # characters that str.splitlines() takes for line boundaries but that are not line ends: a piece ends at '\n' only
    odd = ("import sys\nprint('progress 10%\\rprogress 100%')\nprint('a\\x0bb')\nsys.stdout.write('x\\x0cy\\n')\n"
           "print('fs\\x1cgs\\x1drs\\x1eus\\x1fend')\nprint('nel\\x85x')\nprint('ls\\u2028ps\\u2029end')\nsys.stdout.write('crlf\\r\\n')\n"
           "sys.stdout.write('no newline \\r at all')\nsys.stdout.write(' …until now\\n')\nprint('tab\\there')\n")
    for pol in ({'kind': 'all', 'command': 'next'}, {'kind': 'all', 'command': 'continue'}):
        sspecs.append({'source': odd, 'policy': pol, 'trace_threads': True, 'trace_modules': False, 'kind': 'odd-separators', 'timeout': 30,
                       'want_reference': False, 'want_recorder': False, 'switchinterval': None})
    # jobs handed to the default executor one after the other (to_thread / run_in_executor / call_soon / copy_context().run): the pooled
    # worker thread is reused, and runs in a copy of the calling task's context; task, callbacks and worker write full and partial lines
    for i in range(6 if chk.tier == 'quick' else 48):
        src, info = progs.pool_reuse(random.Random(chk.rng.randrange(1 << 30)), ntasks=chk.rng.choice([1, 2, 3]), ncalls=chk.rng.choice([2, 4, 5]))
        pol = [{'kind': 'all', 'command': 'continue'}, {'kind': 'all', 'command': 'next'}, {'kind': 'all', 'command': 'step'}][i % 3]
        for tt in ((True, False) if i % 2 == 0 else (True,)):
            sspecs.append({'source': src, 'policy': pol, 'trace_threads': tt, 'trace_modules': False, 'kind': 'pool-reuse', 'forms': info['forms'],
                           'timeout': 90, 'want_reference': False, 'want_recorder': False, 'switchinterval': None})
    # threads that are not joined: each one is inside its traced function when the script ends (handshake) and writes full and partial lines only
    # after the script's last statement has run (which sets the event they wait for); the run lasts until they have ended, they are traced all the time
    for i in range(6 if chk.tier == 'quick' else 36):
        src, info = progs.outliving_writers(random.Random(chk.rng.randrange(1 << 30)), nthreads=chk.rng.choice([1, 2, 3]))
        pol = [{'kind': 'all', 'command': 'continue'}, {'kind': 'all', 'command': 'next'}, {'kind': 'all', 'command': 'step'}][i % 3]
        sspecs.append({'source': src, 'policy': pol, 'trace_threads': True, 'trace_modules': False, 'kind': 'outliving-writers', 'info': info,
                       'timeout': 90, 'want_reference': False, 'want_recorder': False, 'switchinterval': None})
    for r in _trace.run_specs(sspecs, chunk=4):
        sp = r['spec']
        if 'harness_error' in r:
            if not r['harness_error'].startswith('SKIPPED'):
                oracle_fail.append(({'script': sp['source'], 'policy': sp['policy']}, [f'the traced run did not complete: {r["harness_error"][:200]}'], None))
            continue
        chk.cov.case(('stress', sp['source'], repr(sp['policy'])))
        chk.cov.count('kinds', 'threads-writing-concurrently' if sp['kind'] == 'stress' else
                      'pool-reuse-threads-untraced' if sp['kind'] == 'pool-reuse' and not sp['trace_threads'] else sp['kind'])
        if sp['kind'] == 'pool-reuse':
            for f in sp['forms']:
                chk.cov.count('pool_call_forms', f)
            names = {k for k, _ in r['traced']['writes'] if POOL.fullmatch(k)}
            chk.cov.count('pool_threads_used', len(names))
            msgs = pool_oracle(r['traced'], sp['trace_threads'])
            if r['traced'].get('fmt_exc'):
                msgs.append(f'the script raised: {r["traced"]["fmt_exc"][-300:]}')
            if msgs:
                msgs[0] = f'executor jobs run one after the other (trace_threads={sp["trace_threads"]}): ' + msgs[0]
        elif sp['kind'] == 'outliving-writers':
            chk.cov.count('outliving_threads', len(sp['info']['late']))
            msgs = outliving_oracle(r['traced'], sp['info'])
            if r['traced'].get('fmt_exc'):
                msgs.append(f'the script raised: {r["traced"]["fmt_exc"][-300:]}')
            if msgs:
                msgs[0] = f'threads that outlive the script (not joined, policy {sp["policy"]["command"]}): ' + msgs[0]
        else:
            msgs = _trace.captured_oracle(r['traced'])
        if r['traced'].get('error'):
            msgs.append(f'spawned.run raised: {r["traced"]["error"]}')
        if msgs:
            oracle_fail.append(({'script': sp['source'], 'policy': sp['policy'], 'trace_threads': sp['trace_threads'], 'switchinterval': sp.get('switchinterval')}, msgs, None))

    for ws, msgs, out in oracle_fail[:5]:
        chk.violation(f'C13 oracle: {msgs[0]}', {'input': ws, 'oracle_messages': msgs, 'implementation': out})
    broken = common.proof_broken(chk)
    if model_err:
        broken.append(f'model driver unusable: {model_err}')
    if disagreements:
        chk.cov.disagreements_checked = len(disagreements)
        ws, k, m, i = min(disagreements, key=lambda d: len(d[0]))
        broken.append(f'correspondence K broken on {len(disagreements)} write sequences; shortest {ws!r} at write {k}: model {m!r} vs implementation {i!r}')
    if broken and not oracle_fail:
        chk.violation('C13: ' + ' | '.join(broken[:3]), {'no_longer_checks': broken}, no_input=True)
