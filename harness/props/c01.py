"""C01 — lifecycle state only moves along the documented diagram.  Model A + `Generated.Config`."""
from __future__ import annotations

from .. import common
from . import _life

KINDS = {'ret', 'blocked', 'ps', 'st'}


def oracle_serial(r: dict) -> list[str]:
    msgs = []
    prev = 'created'
    pub_prev = None
    for op, rep in zip(r['ops'], r['impl']):
        if rep == 'skipped':
            continue
        toks = rep.split()
        st = next(t[3:] for t in toks if t.startswith('st='))
        # published states of this op, in order
        for t in toks:
            if t.startswith('ps:'):
                s = t[3:]
                if pub_prev is not None and (pub_prev, s) not in _life.EDGES and pub_prev != s:
                    msgs.append(f'published state went {pub_prev} → {s}')
                if pub_prev == s and s != 'initialized':
                    msgs.append(f'state {s} published twice in a row')
                pub_prev = s
        rets = [t for t in toks if t.startswith('ret:')]
        refused = [t for t in rets if t.split(':')[1] in ('run', 'reset', 'run_and_continue', 'run_continue_and_wait') and t.endswith('MachineError')]
        if refused and st != prev:
            msgs.append(f'{op!r} was refused with MachineError but the state changed {prev} → {st}')
        if refused and any(t.startswith(('ps:', 'prn:', 'pri:', 'pst:', 'cs:', 'hk:')) for t in toks):
            msgs.append(f'{op!r} was refused but had effects: {rep}')
        if prev == 'closed' and st != 'closed':
            msgs.append(f'closed was left: → {st}')
        # the documented diagram: from `prev`, which of run / reset are allowed; a disallowed request must be refused with an error
        name = {'run': 'run', 'rac': 'run_and_continue', 'rcw': 'run_continue_and_wait', 'reset': 'reset'}.get(op.split()[0])
        if name is not None:
            allowed = {'run': prev == 'initialized', 'run_and_continue': prev == 'initialized', 'run_continue_and_wait': prev == 'initialized',
                       'reset': prev in ('initialized', 'finished')}[name]
            mine = [t for t in rets if t.split(':')[1] == name]
            if not allowed and mine and not mine[0].endswith(('MachineError', 'RuntimeError', 'AssertionError')) and 'blocked:' not in rep:
                msgs.append(f'{op!r} in state {prev} is not allowed by the diagram but was not refused with an error: {mine[0]}')
        prev = st
    return msgs


def reentrant_case(request: str, hook_name: str) -> dict:
    """A plugin issues a lifecycle request from inside a hook (config.py: "a trigger method can be called from a callback"): the run is
    started from on_initialize_run — nested in the initialise transition of start() and, for the second run, of reset().  Recorded: every
    state report (the on_change_state hook, which feeds the subscription) with the state attribute at that moment, and the subscription."""
    import asyncio
    from typing import Any
    from .. import fakes, lifecycle, loop as ctl
    from nextline.spawned import RunResult

    async def main() -> dict:
        from nextline.plugin.spec import hookimpl
        sc = lifecycle.Scenario(0, 1, False, False)
        await sc.setup()
        nl = sc.nl
        reports: list = []
        sub: list = []
        errors: list = []

        class Probe:
            @hookimpl
            async def on_change_state(self, context: Any, state_name: str) -> None:
                reports.append((state_name, nl.state))

        async def request_it(context: Any) -> None:
            try:
                if request == 'run':
                    await context.nextline.run()
                else:
                    await context.nextline.run_and_continue()
            except Exception as e:  # noqa
                errors.append(f'{type(e).__name__}: {e}')
        if hook_name == 'on_initialize_run':
            class Auto:
                @hookimpl
                async def on_initialize_run(self, context: Any) -> None:
                    await request_it(context)
        else:
            class Auto:     # type: ignore[no-redef]
                @hookimpl
                async def on_change_state(self, context: Any, state_name: str) -> None:
                    if state_name == 'initialized':
                        await request_it(context)
        nl.register(Probe())
        nl.register(Auto())

        async def watch() -> None:
            async for x in nl.subscribe_state():
                sub.append(x)
        w = asyncio.ensure_future(watch())
        await lifecycle.settle()
        quiescent: list = []

        def look(where: str) -> None:
            try:
                latest = nl.get('state_name')
            except Exception:  # noqa
                latest = None
            quiescent.append((where, nl.state, latest, len(sc.world.live())))
        t = asyncio.ensure_future(nl.start())
        await lifecycle.settle()
        look('after start()')
        for c in sc.world.live():
            c.exit(RunResult(ret=5), exitcode=0)
        await lifecycle.settle()
        look('after the first child exited')
        t2 = asyncio.ensure_future(nl.reset())
        await lifecycle.settle()
        look('after reset()')
        for c in sc.world.live():
            c.exit(RunResult(ret=6), exitcode=0)
        await lifecycle.settle()
        look('after the second child exited')
        out = {'request': request, 'hook': hook_name, 'reports': reports[:], 'quiescent': quiescent, 'errors': errors,
               'start_done': t.done(), 'reset_done': t2.done()}
        for c in sc.world.live():
            c.exit(RunResult(ret=None), exitcode=0)
        try:
            await asyncio.wait_for(nl.close(), timeout=5)
        except BaseException:  # noqa
            pass
        await lifecycle.settle()
        out['subscription'] = sub[:]
        for x in (w, t, t2):
            x.cancel()
        return out
    fakes.install()
    try:
        return ctl.run(main, ctl.Fifo())
    except (Exception, ctl.StepBudgetExceeded) as e:  # noqa
        return {'request': request, 'hook': hook_name, 'error': f'{type(e).__name__}: {e}'}


def reentrant_oracle(r: dict) -> tuple[list[str], list[str]]:
    """(violations, the recorded finding's symptom)"""
    if 'error' in r:
        return [f'scenario failed: {r["error"]}'], []
    who = f"a plugin calls {r['request']}() from inside {r['hook']} (a request nested in the initialise transition)"
    m, known = [], []
    false_reports = [(a, b) for a, b in r['reports'] if a != b]
    if false_reports:
        a, b = false_reports[0]
        m.append(f'{who}: the state {a!r} was reported while the state attribute was {b!r} (reports with the attribute at that moment: {r["reports"]})')
    for where, state, latest, live in r['quiescent']:
        if latest is not None and latest != state:
            m.append(f'{who}: {where} the last published state is {latest!r}, the state attribute {state!r}')
    names = [a for a, _ in r['reports']]
    if r['subscription'][:len(names)] != names and names[:len(r['subscription'])] != r['subscription']:
        m.append(f'{who}: the subscription yielded {r["subscription"]}, the reports were {names}')
    # the edges, strictly: the reported sequence (consecutive repeats removed) starting from 'created'
    seq = ['created']
    for x in names:
        if x != seq[-1]:
            seq.append(x)
    bad = [(a, b) for a, b in zip(seq, seq[1:]) if (a, b) not in _life.EDGES]
    if bad and not false_reports:
        known.append(f'{who}: the reported states {names} step {bad[0][0]!r} → {bad[0][1]!r}: the outer transition reports after the nested one has completed, '
                     f'so its own destination is never reported')
    return m, known


def run(chk: common.Check) -> None:
    chk.cov.rule = ('serial histories over start/run/run_and_continue/run_continue_and_wait/reset(opts)/close/signals/send_command + child prompt/exit: '
                    'all histories up to a fixed length and seeded random longer ones, on the real Nextline with a simulated child (stock-order and '
                    'random schedules) and on the Lean model, compared on call results, state attribute and state publications; plus overlapping '
                    'calls from 2–3 tasks under the permuting loop (state attribute sampled after every scheduler step). Non-trivial: at least one '
                    'accepted and one refused call; distinct = distinct (initial options, history, schedule kind).')
    chk.assumptions += ['serial histories: no lifecycle call is issued while another is blocked or in progress (overlapping calls are known finding F-A2)',
                        'callers are tasks created outside hooks (no inherited transitions context)']
    L = 3 if chk.tier == 'quick' else 4
    scen = _life.gen_serial(chk, L, 1500 if chk.tier == 'quick' else 20000)
    rows = _life.run_serial(chk, scen)
    _life.coverage(chk, rows, lambda r: any(':ok' in x for x in r['impl']) and any('MachineError' in x for x in r['impl']))
    chk.cov.exhaustive = True
    chk.cov.extra['exhaustive_scope'] = f'all serial histories of length ≤ {L} over {_life.ALPHABET}'
    oracle_fail = []
    for r in rows:
        if r['error']:
            oracle_fail.append(({'init': r['init'], 'ops': r['ops']}, [f'scenario failed: {r["error"]}'], None))
            continue
        m = oracle_serial(r)
        if m:
            oracle_fail.append(({'init': r['init'], 'ops': r['ops'], 'schedule': r['schedule'], 'implementation': r['impl']}, m, None))
    dis = _life.compare(rows, KINDS)
    conc = _life.run_concurrent(chk, 400 if chk.tier == 'quick' else 8000)
    for c in conc:
        chk.cov.case(('conc', c['seed']))
        chk.cov.count('kinds', 'concurrent')
        sm = c['states']
        attr = [f'state attribute went {a} → {b} (overlapping calls {c["calls"]})' for a, b in zip(sm, sm[1:]) if (a, b) not in _life.EDGES]
        pb = c['published']
        pubs = [f'published state went {a} → {b} (overlapping calls {c["calls"]})' for a, b in zip(pb, pb[1:])
                if ((a, b) not in _life.EDGES and a != b) or (a == b and a != 'initialized')]
        if c['error']:
            attr.append(f'scenario with overlapping calls failed: {c["error"]}')
        if attr:
            oracle_fail.append((c, attr, None))          # never seen on the unchanged tree: not a known finding
        if pubs:
            oracle_fail.append((c, pubs, 'overlap_published_states'))
    for request in ('run', 'rac'):
        # (a request issued from another implementation of on_change_state itself is not used: the implementations of one hook call run one
        # after the other, so a probe implementation would sample the attribute after the nested transition — an artefact of the probe)
        for hook_name in ('on_initialize_run',):
            r = reentrant_case(request, hook_name)
            chk.cov.case(('reentrant-request', request, hook_name))
            chk.cov.count('kinds', 'request-issued-from-inside-a-hook')
            m, known = reentrant_oracle(r)
            if m:
                oracle_fail.append(({'reentrant': r}, m, None))
            elif known:
                oracle_fail.append(({'reentrant': r}, known, 'nested_request_outer_destination_never_reported'))
    _life.finish(chk, 'C01', oracle_fail, dis, 'call results, state attribute, state publications')
