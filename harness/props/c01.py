"""C01 — lifecycle state only moves along the documented diagram.  Model A + `Generated.Config`."""
from __future__ import annotations

from .. import common
from . import _life

KINDS = {'ret', 'blocked', 'ps', 'st'}


def oracle_serial(r: dict) -> list[str]:
    msgs = []
    prev = 'created'
    pub_prev = None
    for op, rep in zip(r['ops'], r['impl']):
        if rep == 'skipped':
            continue
        toks = rep.split()
        st = next(t[3:] for t in toks if t.startswith('st='))
        # published states of this op, in order
        for t in toks:
            if t.startswith('ps:'):
                s = t[3:]
                if pub_prev is not None and (pub_prev, s) not in _life.EDGES and pub_prev != s:
                    msgs.append(f'published state went {pub_prev} → {s}')
                if pub_prev == s and s != 'initialized':
                    msgs.append(f'state {s} published twice in a row')
                pub_prev = s
        rets = [t for t in toks if t.startswith('ret:')]
        refused = [t for t in rets if t.split(':')[1] in ('run', 'reset', 'run_and_continue', 'run_continue_and_wait') and t.endswith('MachineError')]
        if refused and st != prev:
            msgs.append(f'{op!r} was refused with MachineError but the state changed {prev} → {st}')
        if refused and any(t.startswith(('ps:', 'prn:', 'pri:', 'pst:', 'cs:', 'hk:')) for t in toks):
            msgs.append(f'{op!r} was refused but had effects: {rep}')
        if prev == 'closed' and st != 'closed':
            msgs.append(f'closed was left: → {st}')
        # the documented diagram: from `prev`, which of run / reset are allowed; a disallowed request must be refused with an error
        name = {'run': 'run', 'rac': 'run_and_continue', 'rcw': 'run_continue_and_wait', 'reset': 'reset'}.get(op.split()[0])
        if name is not None:
            allowed = {'run': prev == 'initialized', 'run_and_continue': prev == 'initialized', 'run_continue_and_wait': prev == 'initialized',
                       'reset': prev in ('initialized', 'finished')}[name]
            mine = [t for t in rets if t.split(':')[1] == name]
            if not allowed and mine and not mine[0].endswith(('MachineError', 'RuntimeError', 'AssertionError')) and 'blocked:' not in rep:
                msgs.append(f'{op!r} in state {prev} is not allowed by the diagram but was not refused with an error: {mine[0]}')
        prev = st
    return msgs


def run(chk: common.Check) -> None:
    chk.cov.rule = ('serial histories over start/run/run_and_continue/run_continue_and_wait/reset(opts)/close/signals/send_command + child prompt/exit: '
                    'all histories up to a fixed length and seeded random longer ones, on the real Nextline with a simulated child (stock-order and '
                    'random schedules) and on the Lean model, compared on call results, state attribute and state publications; plus overlapping '
                    'calls from 2–3 tasks under the permuting loop (state attribute sampled after every scheduler step). Non-trivial: at least one '
                    'accepted and one refused call; distinct = distinct (initial options, history, schedule kind).')
    chk.assumptions += ['serial histories: no lifecycle call is issued while another is blocked or in progress (overlapping calls are known finding F-A2)',
                        'callers are tasks created outside hooks (no inherited transitions context)']
    L = 3 if chk.tier == 'quick' else 4
    scen = _life.gen_serial(chk, L, 1500 if chk.tier == 'quick' else 20000)
    rows = _life.run_serial(chk, scen)
    _life.coverage(chk, rows, lambda r: any(':ok' in x for x in r['impl']) and any('MachineError' in x for x in r['impl']))
    chk.cov.exhaustive = True
    chk.cov.extra['exhaustive_scope'] = f'all serial histories of length ≤ {L} over {_life.ALPHABET}'
    oracle_fail = []
    for r in rows:
        if r['error']:
            oracle_fail.append(({'init': r['init'], 'ops': r['ops']}, [f'scenario failed: {r["error"]}'], None))
            continue
        m = oracle_serial(r)
        if m:
            oracle_fail.append(({'init': r['init'], 'ops': r['ops'], 'schedule': r['schedule'], 'implementation': r['impl']}, m, None))
    dis = _life.compare(rows, KINDS)
    conc = _life.run_concurrent(chk, 400 if chk.tier == 'quick' else 8000)
    for c in conc:
        chk.cov.case(('conc', c['seed']))
        chk.cov.count('kinds', 'concurrent')
        sm = c['states']
        attr = [f'state attribute went {a} → {b} (overlapping calls {c["calls"]})' for a, b in zip(sm, sm[1:]) if (a, b) not in _life.EDGES]
        pb = c['published']
        pubs = [f'published state went {a} → {b} (overlapping calls {c["calls"]})' for a, b in zip(pb, pb[1:])
                if ((a, b) not in _life.EDGES and a != b) or (a == b and a != 'initialized')]
        if c['error']:
            attr.append(f'scenario with overlapping calls failed: {c["error"]}')
        if attr:
            oracle_fail.append((c, attr, None))          # never seen on the unchanged tree: not a known finding
        if pubs:
            oracle_fail.append((c, pubs, 'overlap_published_states'))
    _life.finish(chk, 'C01', oracle_fail, dis, 'call results, state attribute, state publications')
