"""C11 — published run state agrees with the event stream and is closed out at run end.

Model C (`NLV.Model.Registrars`), theorems `NLV.Props.C11`.
Tie: the real registrars on a real `PubSub`, driven through the real hook caller (`on_event_in_process` →
`OnEvent` → registrars) of a real `Nextline` object with generated well-formed streams cut at every kind of
prefix; publications compared per key with the Lean model.  Oracle: the clauses of the property evaluated on
what subscribers attached at arbitrary points received, and on their termination.
"""
from __future__ import annotations

import asyncio
import datetime
import itertools
import multiprocessing as mp
import random
from typing import Any, Optional

from .. import common

EVENTS = ['line', 'call', 'return', 'exception']


# ---------------------------------------------------------------------------
# stream generation (well-formed by construction; the Lean `wstep` re-checks it)
# ---------------------------------------------------------------------------

def gen_stream(rng: random.Random, max_traces: int, max_len: int, p_kill: float = 0.4) -> list[list]:
    """One run: list of protocol event tuples, possibly cut (kill)."""
    evs: list[list] = []
    ntr = 0
    base = rng.choice([0, 0, 5, 9, 30])       # trace numbers start anywhere (a long run has many traces): base+1, base+2, …
    callno = 0
    promptno = 0
    # per trace: phase 0 idle, 1 in call, 2 in cmdloop, 3 prompt open; ended
    tr: dict[int, dict] = {}
    length = rng.randint(0, max_len)
    while len(evs) < length:
        choices = []
        if ntr < max_traces:
            choices.append(('st', None))
        for t, s in tr.items():
            if s['ended']:
                continue
            ph = s['phase']
            if ph == 0:
                choices += [('sc', t), ('sc', t), ('et', t), ('so', t)]
            elif ph == 1:
                choices += [('ec', t), ('sl', t), ('sl', t)] if not s['looped'] else [('ec', t)]
            elif ph == 2:
                choices += [('sp', t), ('sp', t)] + ([('el', t)] if s['prompted'] else [])
            elif ph == 3:
                choices += [('ep', t), ('ep', t), ('so', t)]
        if not choices:
            break
        kind, t = rng.choice(choices)
        if kind == 'st':
            ntr += 1
            t = base + ntr
            thread = rng.randint(1, 3)
            task = rng.choice([None, None, 1, 2])
            tr[t] = {'phase': 0, 'ended': False, 'call': None, 'looped': False, 'prompted': False, 'p': None}
            evs.append(['st', t, thread, task])
        elif kind == 'et':
            tr[t]['ended'] = True
            evs.append(['et', t])
        elif kind == 'sc':
            callno += 1
            s = tr[t]
            # the frame id repeats within a trace so that the "trace call end" place-holder is exercised
            s.update(phase=1, call=callno, looped=False, prompted=False)
            evs.append(['sc', t, callno, rng.randint(0, 2), rng.randint(1, 9), 100 * t + rng.randint(0, 1), rng.randint(0, 3)])
        elif kind == 'ec':
            s = tr[t]
            evs.append(['ec', t, s['call']])
            s.update(phase=0, call=None)
        elif kind == 'sl':
            s = tr[t]
            s.update(phase=2, looped=True)
            evs.append(['sl', t, s['call']])
        elif kind == 'el':
            s = tr[t]
            s.update(phase=1)
            evs.append(['el', t, s['call']])
        elif kind == 'sp':
            promptno += 1
            s = tr[t]
            s.update(phase=3, p=promptno, prompted=True)
            evs.append(['sp', t, s['call'], promptno, rng.randint(0, 5)])
        elif kind == 'ep':
            s = tr[t]
            evs.append(['ep', t, s['p'], rng.randint(0, 5)])
            s.update(phase=2, p=None)
        elif kind == 'so':
            evs.append(['so', t, rng.randint(0, 5)])
    if rng.random() > p_kill:
        # run to a clean end: close everything in a legal order
        for t, s in tr.items():
            if s['ended']:
                continue
            if s['phase'] == 3:
                evs.append(['ep', t, s['p'], 0])
                s['phase'] = 2
            if s['phase'] == 2:
                evs.append(['el', t, s['call']])
                s['phase'] = 1
            if s['phase'] == 1:
                evs.append(['ec', t, s['call']])
                s['phase'] = 0
            evs.append(['et', t])
            s['ended'] = True
    return evs


def all_small_streams() -> list[list[list]]:
    """Every prefix of every interleaving of two small traces (exhaustive small scope)."""
    def trace(t: int, c0: int, p0: int, nprompts: int) -> list[list]:
        ev = [['st', t, t, None], ['sc', t, c0, 0, 1, 100 * t, 0], ['sl', t, c0]]
        for j in range(nprompts):
            ev += [['sp', t, c0, p0 + j, 1], ['ep', t, p0 + j, 2]]
        ev += [['el', t, c0], ['ec', t, c0], ['sc', t, c0 + 1, 0, 2, 100 * t, 0], ['ec', t, c0 + 1], ['et', t]]
        return ev
    out = []
    a = trace(1, 1, 1, 2)
    b = trace(2, 10, 10, 1)
    # all interleavings of prefixes of a and b of bounded total length
    seen = set()

    def rec(i: int, j: int, acc: list) -> None:
        key = (i, j, tuple(map(tuple, acc)))
        if key in seen:
            return
        seen.add(key)
        out.append(list(acc))
        if len(acc) >= 9:
            return
        if i < len(a):
            rec(i + 1, j, acc + [a[i]])
        if j < len(b):
            rec(i, j + 1, acc + [b[j]])
    rec(0, 0, [])
    return out


def lines_of(runs: list[tuple[int, list[list]]]) -> list[str]:
    """runs: [(run_no, events)] for one Nextline object."""
    out = ['reset']
    for rn, evs in runs:
        out.append(f'init {rn} 7')
        out.append('startrun')
        for e in evs:
            out.append('ev ' + ' '.join('-' if x is None else str(x) for x in e))
        out.append('endrun 3 4')
    return out


# ---------------------------------------------------------------------------
# implementation side
# ---------------------------------------------------------------------------

def canon_value(key: str, v: Any) -> str:
    def o(x: Any, f: Any = str) -> str:
        return '-' if x is None else f(x)

    def num(prefix: str) -> Any:
        return lambda s: str(int(s[len(prefix):])) if isinstance(s, str) and s.startswith(prefix) else f'?{s!r}'
    if key == 'trace_nos':
        return 'tn:' + ','.join(str(x) for x in v)
    if key == 'trace_info':
        return f"ti:{v.run_no},{v.trace_no},{v.thread_no},{o(v.task_no)},{1 if v.state == 'running' else 0 if v.state == 'finished' else '?'}"
    if key == 'prompt_info' or key.startswith('prompt_info_'):
        ev = '-' if v.event is None else str(EVENTS.index(v.event))
        fl = '-' if v.file_name is None else num('file')(v.file_name)
        tx = '-' if v.stdout is None else num('text')(v.stdout)
        cm = '-' if v.command is None else num('cmd')(v.command)
        return f"pi:{v.run_no},{v.trace_no},{v.prompt_no},{int(bool(v.open))},{ev},{fl},{o(v.line_no)},{tx},{cm},{int(bool(v.trace_call_end))}"
    if key == 'prompt_notice':
        return f"pn:{v.run_no},{v.trace_no},{v.prompt_no},{num('text')(v.prompt_text)},{EVENTS.index(v.event)},{num('file')(v.file_name)},{v.line_no}"
    if key == 'run_info':
        st = {'initialized': 0, 'running': 1, 'finished': 2}[v.state]
        sc = '-' if v.script is None else '7'
        return f"ri:{v.run_no},{st},{sc},{o(v.result, num('ret'))},{o(v.exception, num('exc'))}"
    if key == 'run_no':
        return f'rn:{v}'
    if key == 'stdout':
        return f"so:{v.run_no},{v.trace_no},{num('text')(v.text)}"
    return f'??{key}'


def make_event(e: list, rn: int) -> Any:
    from nextline import events as E
    now = datetime.datetime.utcnow
    k = e[0]
    if k == 'st':
        return E.OnStartTrace(started_at=now(), run_no=rn, trace_no=e[1], thread_no=e[2], task_no=e[3])
    if k == 'et':
        return E.OnEndTrace(ended_at=now(), run_no=rn, trace_no=e[1])
    if k == 'sc':
        return E.OnStartTraceCall(started_at=now(), run_no=rn, trace_no=e[1], trace_call_no=e[2], file_name=f'file{e[3]}',
                                  line_no=e[4], frame_object_id=e[5], event=EVENTS[e[6]])
    if k == 'ec':
        return E.OnEndTraceCall(ended_at=now(), run_no=rn, trace_no=e[1], trace_call_no=e[2])
    if k == 'sl':
        return E.OnStartCmdloop(started_at=now(), run_no=rn, trace_no=e[1], trace_call_no=e[2])
    if k == 'el':
        return E.OnEndCmdloop(ended_at=now(), run_no=rn, trace_no=e[1], trace_call_no=e[2])
    if k == 'sp':
        return E.OnStartPrompt(started_at=now(), run_no=rn, trace_no=e[1], trace_call_no=e[2], prompt_no=e[3],
                               prompt_text=f'text{e[4]}', file_name='ignored', line_no=0, frame_object_id=0, event='line')
    if k == 'ep':
        return E.OnEndPrompt(ended_at=now(), run_no=rn, trace_no=e[1], trace_call_no=0, prompt_no=e[2], command=f'cmd{e[3]}')
    if k == 'so':
        return E.OnWriteStdout(written_at=now(), run_no=rn, trace_no=e[1], text=f'text{e[2]}')
    raise ValueError(k)


def e2e_case(seed: int) -> dict:
    """End to end through the real run session: a simulated child emits a well-formed stream (possibly cut: traces and prompts
    still open) faster than a slow plugin lets the relay deliver it, then exits or is killed; when `finished` is published the
    run state must be closed out, whatever the schedule."""
    from .. import fakes, lifecycle, loop as ctl
    rng = random.Random(seed)
    stream = gen_stream(rng, 3, rng.choice([4, 8, 14, 20]), p_kill=0.6)
    slow = rng.choice([0, 1, 3])
    kill = rng.random() < 0.5
    chooser = ctl.Rand(random.Random(seed * 17 + 3))
    msgs: list[str] = []
    info: dict = {'n': len(stream), 'kill': kill, 'slow': slow}

    async def main() -> None:
        from nextline import Nextline
        from nextline.plugin.spec import hookimpl
        from nextline.spawned import RunResult
        w = fakes.reset_world()
        w.signal_exits = False
        nl = Nextline('x = 1\n')
        seen: list = []

        class Slow:
            @hookimpl
            async def on_start_run(self, context: Any, event: Any) -> None:
                seen.append('startRun')

            @hookimpl
            async def on_event_in_process(self, context: Any, event: Any) -> None:
                for _ in range(slow):
                    await asyncio.sleep(0)
        nl.register(Slow())
        await nl.start()
        notices: list = []
        ids: list = []

        async def consume(it: Any, out: list) -> None:
            async for x in it:
                out.append(x)
        run_task = asyncio.ensure_future(nl.run())
        for _ in range(300):
            if w.children and 'startRun' in seen:
                break
            await asyncio.sleep(0)
        child = w.children[0]
        t_notice = asyncio.ensure_future(consume(nl.prompts(), notices))
        t_ids = asyncio.ensure_future(consume(nl.subscribe_trace_ids(), ids))
        for e in stream:
            child.emit(make_event(e, 1))
            for _ in range(rng.choice([0, 0, 0, 1, 2])):
                await asyncio.sleep(0)
        if kill:
            child.exit(None, exitcode=-9)       # everything it had written stays in the channel
        else:
            child.exit(RunResult(ret=None), exitcode=0)
        await asyncio.wait_for(run_task, timeout=60)
        await lifecycle.settle()
        started = [e[1] for e in stream if e[0] == 'st']
        if nl.state != 'finished':
            msgs.append(f'state after the run: {nl.state}')
        if tuple(nl.trace_ids) != ():
            msgs.append(f'the run has ended but the active trace ids are {tuple(nl.trace_ids)} (traces started: {started})')
        if ids and tuple(ids[-1]) != ():
            msgs.append(f'the last published set of active trace ids is {tuple(ids[-1])}, not empty')
        if not t_notice.done():
            msgs.append('a subscriber of prompts() attached during the run is still waiting after the run ended')
        opened = [(e[1], e[3]) for e in stream if e[0] == 'sp']
        got = [(n.trace_no, n.prompt_no) for n in notices]
        if got != opened:
            msgs.append(f'prompt notices {got} do not match prompt starts {opened} one to one')
        await nl.close()
        for t in (t_notice, t_ids):
            if not t.done():
                t.cancel()
    err = None
    fakes.install()
    try:
        ctl.run(main, chooser)
    except (Exception, ctl.StepBudgetExceeded) as e:  # noqa
        err = f'{type(e).__name__}: {e}'
    if err:
        msgs.append(f'the run did not complete: {err}')
    return {'seed': seed, 'stream': stream, 'msgs': msgs, 'info': info, 'schedule': chooser.trace}


def _e2e_shard(seeds: list) -> list:
    return [e2e_case(s) for s in seeds]


async def drive(runs: list[tuple[int, list[list]]], rng: random.Random, attach: bool) -> dict:
    """Drive the real hooks of a real Nextline with the given runs. Returns per-key op log, oracle messages."""
    from nextline import Nextline
    from nextline import events as E
    from nextline.plugin.spec import hookimpl

    ops: list[tuple[str, str, str]] = []      # (P|E, key, value)
    per_hook: list[list[tuple[str, str, str]]] = []
    msgs: list[str] = []

    class Grab:
        ctx: Any = None

        @hookimpl
        def init(self, context: Any) -> None:
            # first hook of start(): wrap the broker's publish/end of this object before anything is published
            Grab.ctx = context
            pubsub = context.pubsub
            org_publish, org_end = pubsub.publish, pubsub.end

            async def publish(key: Any, value: Any) -> None:
                if key not in ('state_name', 'statement', 'script_file_name'):
                    ops.append(('P', str(key), canon_value(str(key), value)))
                await org_publish(key, value)

            async def end(key: Any) -> None:
                ops.append(('E', str(key), ''))
                await org_end(key)
            pubsub.publish = publish
            pubsub.end = end

    Grab.ctx = None
    first_run_no = runs[0][0]
    nl = Nextline('x = 1\n', run_no_start_from=first_run_no)
    nl.register(Grab())
    await nl.start()
    ctx = Grab.ctx
    now = datetime.datetime.utcnow
    aware = lambda: datetime.datetime.now(datetime.timezone.utc)
    subs: list[dict] = []

    def attach_sub(kind: str, t: Optional[int] = None) -> None:
        if kind == 'ids':
            it = nl.subscribe_trace_ids()
        elif kind == 'info':
            it = nl.subscribe_trace_info()
        elif kind == 'notice':
            it = nl.prompts()
        else:
            it = nl.subscribe_prompt_info_for(t)
        recd: list = []

        async def consume() -> None:
            async for x in it:
                recd.append(x)
        # a lazy subscriber obtains its iterator now (while the stream is live) but takes its first step only after
        # the run has ended: it must still see the end of the stream it attached to
        lazy = kind in ('notice', 'for') and rng.random() < 0.3
        subs.append({'kind': kind, 't': t, 'got': recd, 'task': None if lazy else asyncio.ensure_future(consume()),
                     'consume': consume, 'run': cur_run[0], 'lazy': lazy,
                     'live_key_at_attach': (f'prompt_info_{t}' in live_keys) if kind == 'for' else True})

    live_keys: set = set()
    cur_run = [0]
    hook = ctx.hook
    first = True
    for rn, evs in runs:
        cur_run[0] = rn
        mark = 0 if first else len(ops)
        if not first:
            await nl.reset()          # re-initialisation: on_initialize_run fires through the FSM
        first = False
        if ctx.run_arg is None or ctx.run_arg.run_no != rn:
            msgs.append(f'harness: run number {ctx.run_arg and ctx.run_arg.run_no} != expected {rn}')
        # the init-run publications happened inside start()/reset(); the model's `init` line covers them
        if rn != first_run_no:
            pass
        per_hook.append([x for x in ops[mark:]])
        mark = len(ops)
        await hook.ahook.on_start_run(context=ctx, event=E.OnStartRun(started_at=aware(), run_no=rn, statement='x = 1\n'))
        per_hook.append(ops[mark:])
        for e in evs:
            mark = len(ops)
            k = e[0]
            if k == 'st':
                ev: Any = E.OnStartTrace(started_at=now(), run_no=rn, trace_no=e[1], thread_no=e[2], task_no=e[3])
            elif k == 'et':
                ev = E.OnEndTrace(ended_at=now(), run_no=rn, trace_no=e[1])
            elif k == 'sc':
                ev = E.OnStartTraceCall(started_at=now(), run_no=rn, trace_no=e[1], trace_call_no=e[2], file_name=f'file{e[3]}',
                                        line_no=e[4], frame_object_id=e[5], event=EVENTS[e[6]])
            elif k == 'ec':
                ev = E.OnEndTraceCall(ended_at=now(), run_no=rn, trace_no=e[1], trace_call_no=e[2])
            elif k == 'sl':
                ev = E.OnStartCmdloop(started_at=now(), run_no=rn, trace_no=e[1], trace_call_no=e[2])
            elif k == 'el':
                ev = E.OnEndCmdloop(ended_at=now(), run_no=rn, trace_no=e[1], trace_call_no=e[2])
            elif k == 'sp':
                ev = E.OnStartPrompt(started_at=now(), run_no=rn, trace_no=e[1], trace_call_no=e[2], prompt_no=e[3],
                                     prompt_text=f'text{e[4]}', file_name='ignored', line_no=0, frame_object_id=0, event='line')
            elif k == 'ep':
                ev = E.OnEndPrompt(ended_at=now(), run_no=rn, trace_no=e[1], trace_call_no=0, prompt_no=e[2], command=f'cmd{e[3]}')
            elif k == 'so':
                ev = E.OnWriteStdout(written_at=now(), run_no=rn, trace_no=e[1], text=f'text{e[2]}')
            else:
                raise ValueError(k)
            try:
                await hook.ahook.on_event_in_process(context=ctx, event=ev)
            except Exception as ex:
                ops.append(('X', type(ex).__name__, ''))
            per_hook.append(ops[mark:])
            # a trace's prompt stream is live from the start of the trace to its end (from the event stream, not from what the registrars
            # happened to publish: a subscriber may attach before the trace's first prompt)
            if e[0] == 'st':
                live_keys.add(f'prompt_info_{e[1]}')
            elif e[0] == 'et':
                live_keys.discard(f'prompt_info_{e[1]}')
            if attach and rng.random() < 0.25:
                kind = rng.choice(['ids', 'info', 'notice', 'for'])
                t = None
                if kind == 'for':
                    lk = sorted(live_keys)
                    if not lk:
                        continue
                    t = int(rng.choice(lk).split('_')[-1])
                attach_sub(kind, t)
                for _ in range(rng.randint(0, 3)):
                    await asyncio.sleep(0)
        mark = len(ops)
        await hook.ahook.on_end_run(context=ctx, event=E.OnEndRun(ended_at=aware(), run_no=rn, returned='ret3', raised='exc4'))
        per_hook.append(ops[mark:])
        live_keys.clear()
        for s_ in subs:
            if s_['task'] is None:
                s_['task'] = asyncio.ensure_future(s_['consume']())
        for _ in range(8):
            await asyncio.sleep(0)
        # closed out?
        try:
            ids_after = tuple(nl.trace_ids)
        except Exception as ex:  # noqa
            ids_after = ('error', type(ex).__name__)
        if ids_after != ():
            msgs.append(f'run {rn}: trace_ids after the run = {ids_after}, expected ()')
        for s in subs:
            if s['run'] == rn and s['kind'] in ('notice', 'for') and s['live_key_at_attach'] and not s['task'].done():
                msgs.append(f"run {rn}: a subscriber of {'prompts()' if s['kind'] == 'notice' else 'prompt_info_%s' % s['t']} "
                            f"attached while the stream was live{' (first step taken after the run end)' if s['lazy'] else ''} "
                            f'is still waiting after the run ended')
    await nl.close()
    for _ in range(5):
        await asyncio.sleep(0)
    for s in subs:
        if s['task'] is not None and not s['task'].done():
            msgs.append(f"a {s['kind']} subscriber did not terminate at close()")
            s['task'].cancel()
    return {'per_hook': per_hook, 'msgs': msgs}


def oracle(runs: list[tuple[int, list[list]]], per_hook: list[list[tuple[str, str, str]]]) -> list[str]:
    """The clauses of C11 on the publication log (independent of the Lean model)."""
    msgs = []
    h = 0
    for rn, evs in runs:
        h += 2   # init, startrun
        active: list[int] = []
        started: list[int] = []
        infos: dict[int, list[str]] = {}
        prompt_pubs: dict[int, list[str]] = {}
        notices = []
        starts = []
        run_ops: list = []
        for e in evs:
            ops = per_hook[h]
            h += 1
            run_ops += ops
            if e[0] == 'st':
                active.append(e[1])
                started.append(e[1])
            elif e[0] == 'et' and e[1] in active:
                active.remove(e[1])
            if e[0] in ('st', 'et'):
                tn = [o for o in ops if o[1] == 'trace_nos']
                want = 'tn:' + ','.join(map(str, active))
                if [o[2] for o in tn] != [want]:
                    msgs.append(f'run {rn}: after {e} trace_nos published {[o[2] for o in tn]}, expected [{want!r}]')
            if e[0] == 'sp':
                starts.append((e[1], e[3]))
        ops = per_hook[h]
        h += 1
        run_ops += ops
        tn = [o[2] for o in run_ops if o[1] == 'trace_nos' and o[0] == 'P']
        if not tn or tn[-1] != 'tn:':
            msgs.append(f'run {rn}: the last trace_nos publication of the run is {tn[-1:]}, expected the empty tuple')
        for o in run_ops:
            if o[0] != 'P':
                continue
            if o[1] == 'trace_info':
                f = o[2][3:].split(',')
                infos.setdefault(int(f[1]), []).append(f[4])
            if o[1] == 'prompt_info':
                f = o[2][3:].split(',')
                if int(f[2]) >= 0:
                    prompt_pubs.setdefault(int(f[2]), []).append((f[3], f[8]))
            if o[1] == 'prompt_notice':
                f = o[2][3:].split(',')
                notices.append((int(f[1]), int(f[2])))
        for t in started:
            if infos.get(t) != ['1', '0']:
                msgs.append(f'run {rn}: trace {t} info states {infos.get(t)}, expected running then finished exactly once')
        for t in infos:
            if t not in started:
                msgs.append(f'run {rn}: trace info for a trace that never started: {t}')
        ended = {e[2]: e[3] for e in evs if e[0] == 'ep'}
        for t, p in starts:
            want = [('1', '-')] + ([('0', str(ended[p]))] if p in ended else [])
            if prompt_pubs.get(p) != want:
                msgs.append(f'run {rn}: prompt {p}: published (open, command) {prompt_pubs.get(p)}, expected {want}')
        if notices != starts:
            msgs.append(f'run {rn}: prompt notices {notices} do not match prompt starts {starts}')
        # closing out: every prompt_info_<n> topic published in the run is ended after its last publication
        last: dict[str, str] = {}
        for o in run_ops:
            if o[1].startswith('prompt_info_') or o[1] == 'prompt_notice':
                last[o[1]] = o[0]
        for k, v in last.items():
            if v != 'E':
                msgs.append(f'run {rn}: topic {k} was published in the run but not ended at run end')
        if last.get('prompt_notice') != 'E':
            msgs.append(f'run {rn}: prompt_notice was not ended at run end')
    return msgs


def group(ops: list[tuple[str, str, str]]) -> dict[str, list[str]]:
    g: dict[str, list[str]] = {}
    for o in ops:
        g.setdefault(o[1], []).append(o[0] + ':' + o[2])
    return g


def parse_model(reply: str) -> Optional[list[tuple[str, str, str]]]:
    if reply.startswith('error'):
        return None
    parts = reply.split(' ', 2)
    ops = []
    if len(parts) == 3 and parts[2]:
        for tok in parts[2].split(';'):
            f = tok.split('|')
            ops.append((f[0], f[1], f[2] if len(f) > 2 else ''))
    return ops


def _shard(args: tuple) -> list:
    scen, seed = args
    res = []
    for idx, runs, attach in scen:
        loop = asyncio.new_event_loop()
        try:
            r = loop.run_until_complete(drive(runs, random.Random(seed + idx), attach))
            res.append((idx, r['per_hook'], r['msgs'], None))
        except Exception as e:
            import traceback
            res.append((idx, [], [], f'{type(e).__name__}: {e} {traceback.format_exc()[-400:]}'))
        finally:
            loop.run_until_complete(loop.shutdown_asyncgens())
            loop.close()
    return res


def run(chk: common.Check) -> None:
    rng = chk.rng
    chk.cov.rule = ('event streams well-formed by construction (≤ 4 interleaved traces, trace calls, command loops, prompts, stdout), '
                    'cut at a random point with probability 0.4 (kill), 1–3 consecutive runs per object; plus every prefix of every '
                    'interleaving (length ≤ 9) of two fixed small traces; executed on the real registrars through the real hook caller '
                    'and on the Lean model, publications compared per key and per hook call; plus the same kind of streams end to end through the real run '
                    'session with a simulated child, a slow plugin and a kill or exit with traces/prompts open, under random schedules. Non-trivial: at least one trace started. '
                    'Distinct = distinct stream.')
    chk.assumptions += ['each built-in hook implementation is atomic w.r.t. the event loop (F2); implementations of one hook call on '
                        'different keys are compared per key, not across keys',
                        'input streams are well formed in the sense of C09 (checked by the model’s wstep on every case)']
    scen: list = []
    idx = 0
    for evs in all_small_streams():
        scen.append((idx, [(5, evs)], False))
        idx += 1
    nrand = 1500 if chk.tier == 'quick' else 20000
    for _ in range(nrand):
        nruns = rng.choice([1, 1, 2, 3])
        r0 = rng.randint(1, 20)
        runs = [(r0 + i, gen_stream(rng, rng.choice([2, 4, 6]), rng.choice([5, 15, 40, 80]))) for i in range(nruns)]
        scen.append((idx, runs, True))
        idx += 1
    n = 16
    shards: list = [([], chk.seed) for _ in range(n)]
    for s in scen:
        shards[s[0] % n][0].append(s)
    with mp.get_context('fork').Pool(n) as pool:
        results = pool.map(_shard, shards)
    impl = {}
    for sh in results:
        for i, per_hook, msgs, err in sh:
            if err:
                # the real registrars raised (or the scenario could not be driven to its end): reported with the stream as a failing input
                impl[i] = ([], [f'the scenario did not complete: {err[:300]}'])
                continue
            impl[i] = (per_hook, msgs)
    model_out = None
    model_err = None
    try:
        model_out = common.model_batch('reg', [ln for (_, runs, _) in scen for ln in lines_of(runs)])
    except Exception as e:
        model_err = f'{type(e).__name__}: {e}'
    pos = 0
    oracle_fail = []
    disagreements = []
    not_wf = 0
    for i, runs, attach in scen:
        per_hook, msgs = impl[i]
        msgs = msgs + oracle(runs, per_hook)
        nev = sum(len(e) for _, e in runs)
        chk.cov.case(repr(runs), trivial=not any(e[0] == 'st' for _, evs in runs for e in evs))
        for _, evs in runs:
            for e in evs:
                chk.cov.count('events', e[0])
        chk.cov.count('runs_per_object', len(runs))
        if msgs:
            oracle_fail.append((runs, msgs))
        if model_out is not None:
            lines = lines_of(runs)
            mo = model_out[pos:pos + len(lines)]
            pos += len(lines)
            if any('wf=0' in m for m in mo):
                not_wf += 1
            # compare per hook call, per key
            for k, (m, ih) in enumerate(zip(mo[1:], per_hook)):
                mops = parse_model(m)
                if mops is None or group(mops) != group(ih):
                    disagreements.append((runs, lines[k + 1], m, ih))
                    break
        if i in (10, len(scen) - 1):
            chk.cov.sample({'runs': runs, 'first_hooks': per_hook[:6]})
    chk.cov.traces_validated = len(scen) if model_out is not None else 0
    chk.cov.extra['streams_rejected_by_model_wf'] = not_wf
    chk.cov.exhaustive = True
    chk.cov.extra['exhaustive_scope'] = 'every prefix (length ≤ 9) of every interleaving of two fixed traces (2 trace calls, ≤ 2 prompts each)'
    if not_wf:
        raise RuntimeError(f'generator produced {not_wf} streams the model considers ill-formed')

    # end to end through the real run session (simulated child, permuting loop): the stream arrives faster than a slow plugin lets the
    # relay deliver it, the child exits or is killed with traces and prompts open; at `finished` everything must be closed out
    ne2e = 400 if chk.tier == 'quick' else 6000
    seeds = [chk.seed * 1000003 + i for i in range(ne2e)]
    with mp.get_context('fork').Pool(16) as pool:
        e2e = [r for sh in pool.map(_e2e_shard, [seeds[i::16] for i in range(16)]) for r in sh]
    for r in e2e:
        chk.cov.case(('e2e', r['seed']), trivial=not any(e[0] == 'st' for e in r['stream']))
        chk.cov.count('kinds', 'end-to-end-session')
        chk.cov.count('e2e_ending', 'kill' if r['info']['kill'] else 'exit')
        if r['msgs']:
            oracle_fail.append(({'e2e_seed': r['seed'], 'stream': r['stream'], 'ending': r['info'], 'schedule': r['schedule']}, r['msgs']))

    # recorded streams from real runs: what subscribers saw vs the model on the recorded hook stream
    nreal = 4 if chk.tier == 'quick' else 40
    specs = []
    for i in range(nreal):
        if i % 4 == 1:   # to be killed at an open prompt: single trace, so that the child is quiescent at the kill
            src = 'def f(n):\n    for i in range(n):\n        print(i)\nf(3)\nf(2)\n'
        else:
            src = ('import threading\n'
                   'def f(n):\n    for i in range(n):\n        print(i)\n'
                   't = threading.Thread(target=f, args=(2,))\nt.start()\nf(2)\nt.join()\n')
        pol = [{'kind': 'all', 'command': 'next'}, {'kind': 'all', 'command': 'step'},
               {'kind': 'all', 'command': 'continue'}, {'kind': 'random', 'seed': i, 'choices': ['next', 'step']}][i % 4]
        spec = {'statement': src, 'trace_threads': True, 'policy': pol, 'timeout': 60}
        if i % 4 == 1:
            spec['signal'] = {'kind': 'kill', 'at_prompt': 3 + i // 4}
        specs.append(spec)
    for r in common.real_runs(specs, jobs=8, hard_timeout=120):
        rec = r['rec']
        chk.cov.case(('real', repr(r['spec'].get('policy')), repr(r['spec'].get('signal'))))
        chk.cov.count('kinds', 'recorded-real-run')
        if rec is None or not rec.get('finished'):
            oracle_fail.append(({'real_run': r['spec']}, [f'real run did not finish: {(rec or {}).get("errors")} {r["stderr"][-200:]}']))
            continue
        msgs = []
        if rec['trace_ids_after'] != []:
            msgs.append(f'trace_ids after the real run: {rec["trace_ids_after"]}')
        ti: dict = {}
        for x in rec['trace_info']:
            ti.setdefault(x['trace_no'], []).append(x['state'])
        for t, sts in ti.items():
            if sts != ['running', 'finished']:
                msgs.append(f'real run: trace {t} info states {sts}')
        starts = [(h['event']['trace_no'], h['event']['prompt_no']) for h in rec['hooks'] if h['hook'] == 'on_start_prompt']
        notices = [(x['trace_no'], x['prompt_no']) for x in rec['prompt_notice']]
        if notices != starts:
            msgs.append(f'real run: notices {notices} != prompt starts {starts}')
        if rec['trace_ids'] and rec['trace_ids'][-1] != []:
            msgs.append(f'real run: last published trace ids {rec["trace_ids"][-1]}')
        if not all(rec['subscribers_done']):
            msgs.append(f'real run: subscribers still waiting after close: {rec["subscribers_done"]}')
        if msgs:
            oracle_fail.append(({'real_run': r['spec']}, msgs))

    # a hook that is busy for seconds on one event while the run comes to its end (script ends / child is killed with events queued behind it)
    from . import _lag
    lag_specs = _lag.specs()
    for sp, r in zip(lag_specs, common.real_runs(lag_specs, jobs=2, hard_timeout=150)):
        chk.cov.case(('real-lagging-hook', sp['lag']))
        chk.cov.count('kinds', 'real-child-hook-busy-at-the-end-' + sp['lag'])
        found = _lag.oracle(sp, r)
        msgs = [m for a in ('closeout', 'delivery') for m in found[a]]
        if msgs:
            oracle_fail.append(({'real_run': sp}, msgs))
    for runs, msgs in oracle_fail[:5]:
        chk.violation(f'C11 oracle: {msgs[0]}', {'runs': runs, 'protocol_lines': lines_of(runs) if isinstance(runs, list) else None,
                                                  'oracle_messages': msgs})
    broken = common.proof_broken(chk)
    if model_err:
        broken.append(f'model driver unusable: {model_err}')
    if disagreements:
        chk.cov.disagreements_checked = len(disagreements)
        runs, line, m, ih = min(disagreements, key=lambda d: sum(len(e) for _, e in d[0]))
        broken.append(f'correspondence C broken on {len(disagreements)} streams; smallest: at hook {line!r}: model {m!r} vs implementation {ih!r}')
    if broken and not oracle_fail:
        d = None
        if disagreements:
            runs, line, m, ih = min(disagreements, key=lambda d: sum(len(e) for _, e in d[0]))
            d = {'runs': runs, 'hook': line, 'model': m, 'implementation': ih}
        chk.violation('C11: ' + ' | '.join(broken[:3]), {'no_longer_checks': broken, 'smallest_disagreement': d}, no_input=True)
