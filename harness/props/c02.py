"""C02 — every started run finishes and is reported exactly once, however it ends.  Model A (+ real processes).

Tie: (1) FSM level: exact correspondence of model A with the real Nextline + simulated child over serial histories in
which every run is ended in every way the simulated child can end (result, no result, after signals, with events still
in the channel); (2) real spawn children: ending kind × delivery point of the signal × script shape, each case in its own
sub-process with a wall-clock bound, the observed tuple (state sequence, run_info sequence, result, exception, waiter
released, exit code) against the prediction.
"""
from __future__ import annotations

from typing import Any

from .. import common, lifecycle
from . import _life

KINDS = {'ret', 'blocked', 'ps', 'pri', 'st', 'rs', 'fe'}


def oracle_serial(r: dict) -> list[str]:
    msgs = []
    cur: Any = None        # run number of the run in progress
    infos: dict = {}
    for op, rep in zip(r['ops'], r['impl']):
        if rep == 'skipped':
            continue
        g = lifecycle.group(rep)
        toks = rep.split()
        for t in toks:
            if t.startswith('pri:'):
                n, st = t[4:].split('/')
                if st == 'initialized':
                    infos[n] = []          # a (re)initialisation — possibly reusing a number the caller restarted from
                infos.setdefault(n, []).append(st)
        if any(t.startswith('cs:') for t in toks):
            cur = next(t for t in toks if t.startswith('cs:'))[3:].split('/')[0]
        w = op.split()
        if w[0] in ('exit', 'exitx', 'pexit', 'xreset', 'xclose', 'kclose') and cur is not None:
            # the child of run `cur` has exited: the run must be finished now
            if 'ps:finished' not in toks:
                msgs.append(f'the child of run {cur} exited ({op!r}) but finished was not published')
            seq = infos.get(cur, [])
            if seq[-2:] != ['running', 'finished'] and seq[-3:-1] != ['running', 'finished']:
                msgs.append(f'run {cur}: run_info states {seq}')
            if seq.count('finished') != 1 or seq.count('running') != 1:
                msgs.append(f'run {cur} reported {seq.count("running")}× running and {seq.count("finished")}× finished')
            if w[0] in ('exit', 'exitx', 'pexit') or 'ret:reset' not in rep:
                want = '-' if w[1] in ('-', '+') else w[1]
                if g['fe'][0] == 'N' and w[0] in ('exit', 'exitx', 'pexit'):
                    msgs.append(f'after run {cur} ended format_exception() is None (no result recorded)')
                if w[0] in ('exit', 'exitx', 'pexit') and g['rs'][0] != want:
                    msgs.append(f'run {cur} ended with result {want}, result() reports {g["rs"][0]}')
            if g['lc'][0] != '0':
                msgs.append(f'run {cur} finished but its child is alive')
            cur = None
    if r['info'].get('blocked_at_end') and 'run_continue_and_wait' in r['info']['blocked_at_end'] and r['info'].get('live_children') == 0:
        msgs.append('run_continue_and_wait() still blocked although the child has exited')
    return msgs


SCRIPTS = {
    'single': 'import time\nx = 1\ny = x + 1\ntime.sleep(0.05)\nz = y * 2\n',
    'threaded': ('import threading, time\n'
                 'def w():\n    a = 1\n    time.sleep(0.05)\n    b = a + 1\n'
                 't = threading.Thread(target=w)\nt.start()\nc = 3\nt.join()\nd = 4\n'),
    'asyncio': ('import asyncio\n'
                'async def co(n):\n    await asyncio.sleep(0.01)\n    return n\n'
                'async def main():\n    return await asyncio.gather(co(1), co(2))\n'
                'r = asyncio.run(main())\n'),
}


def real_specs(chk: common.Check) -> list[dict]:
    specs: list[dict] = []

    def add(**k: Any) -> None:
        k.setdefault('timeout', 30)
        if (k.get('signal') or {}).get('kind') == 'interrupt':
            # where is the child if the run does not end? (its stacks are dumped shortly before the time-out; used to recognise F-G5)
            k.update(probe=True, probe_nolog=True, probe_dump_after=k['timeout'] - 8)
        specs.append(k)
    pol_next = {'kind': 'all', 'command': 'next'}
    pol_step = {'kind': 'all', 'command': 'step'}
    # ways of ending by themselves
    add(statement='def main():\n    return 7\n', statement_kind='callable', policy=pol_next, expect='return')
    add(statement='x = 1\ny = 2\n', policy=pol_next, expect='plain')
    add(statement="def f():\n    raise ValueError('boom')\nf()\n", policy=pol_step, expect='raise:ValueError')
    add(statement="x = (\n", policy=pol_next, expect='raise:SyntaxError')
    add(statement='import sys\nsys.exit(3)\n', policy=pol_next, expect='raise:SystemExit')
    add(statement='import os\nos._exit(4)\n', policy=pol_next, expect='hard')
    add(statement=('import threading\n'
                   "def w():\n    raise RuntimeError('in thread')\n"
                   't = threading.Thread(target=w)\nt.start()\nt.join()\nx = 1\n'), policy=pol_next, trace_threads=True, expect='plain')
    add(statement=SCRIPTS['asyncio'], policy=pol_next, expect='plain')
    add(statement=SCRIPTS['single'], mode='continuous', expect='plain')
    # the script ends (by raising) while thousands of its events are still on their way: the child waits for the relay, and the
    # result reported afterwards is still that of the run
    add(statement="for i in range(3000):\n    pass\nraise RuntimeError('at the very end')\n", mode='continuous', expect='raise:RuntimeError', timeout=90)
    # a thread that outlives the main script (not joined; the main script ends normally or by raising): the run ends when the thread does
    outlive = ("import threading, time\n"
               "def w():\n    time.sleep(0.3)\n    a = 1\n    b = 2\n    print('thread done', a + b)\n"
               "t = threading.Thread(target=w)\nt.start()\n")
    add(statement=outlive + "raise ValueError('main thread ends first')\n", policy=pol_next, trace_threads=True, expect='raise:ValueError')
    add(statement=outlive + 'x = 1\n', policy=pol_next, trace_threads=True, expect='plain')
    add(statement=outlive + 'x = 1\n', mode='continuous', trace_threads=True, expect='plain')
    # a thread that reaches script code for the first time only after the script has ended (a timer): nothing can prompt it any more, it must
    # not be traced and the run must end (F-G8, fixed)
    late = "import threading\ndef f():\n    a = 1\n    print('late thread', a)\nthreading.Timer(0.3, f).start()\n"
    for extra in ({'policy': pol_next}, {'mode': 'continuous'}):
        add(statement=late + 'x = 1\n', trace_threads=True, expect='plain', timeout=25, probe=True, probe_nolog=True, probe_dump_after=17, **extra)
    add(statement=late + "raise ValueError('main thread ends first')\n", policy=pol_next, trace_threads=True, expect='raise:ValueError', timeout=25,
        probe=True, probe_nolog=True, probe_dump_after=17)
    # SIGINT while the main thread, past the script's last statement, waits for a thread that outlives the script ("during the final drain")
    at_teardown = ("import threading, time, pathlib\n"
                   "def w():\n    time.sleep(2.0)\n    a = 1\n    print('thread done', a)\n"
                   "t = threading.Thread(target=w)\nt.start()\npathlib.Path('@@MARKER@@').write_text('x')\n")
    add(statement=at_teardown, mode='continuous', trace_threads=True, expect='raise:KeyboardInterrupt|plain', timeout=30,
        signal={'kind': 'interrupt', 'after_marker': True, 'delay': 0.5})
    # … the same with the thread still to be prompted: open finding F-G10 (the interrupted wait is abandoned, the relay of commands is closed,
    # the thread stops at a prompt nothing can answer)
    add(statement=at_teardown, policy=pol_next, trace_threads=True, expect='raise:KeyboardInterrupt|plain', timeout=25, interrupt_at_teardown=True,
        signal={'kind': 'interrupt', 'after_marker': True, 'delay': 0.5})
    # an idle executor left behind whose worker ran script code (open finding F-G9: the teardown waits for the worker to END)
    add(statement="from concurrent.futures import ThreadPoolExecutor\ndef f():\n    return 1\nex = ThreadPoolExecutor()\nr = ex.submit(f).result()\n",
        policy=pol_next, trace_threads=True, expect='plain', timeout=25, probe=True, probe_nolog=True, probe_dump_after=17, executor_left=True)
    # a second run of the same object after the first one ended the hard way (whatever the dead child left behind must not matter)
    for kind in ('kill', 'terminate'):
        add(statement=SCRIPTS['single'], policy=pol_next, signal={'kind': kind, 'at_prompt': 2}, expect='hard', second_run=True, second_timeout=20)
    # signals at an open prompt of the main thread (the child is quiescent there)
    ks = [1, 3] if chk.tier == 'quick' else [1, 2, 3, 4, 5]
    for kind in ('interrupt', 'terminate', 'kill'):
        for k in ks:
            for shape in (['single'] if chk.tier == 'quick' else ['single', 'asyncio']):
                add(statement=SCRIPTS[shape], policy=pol_next, signal={'kind': kind, 'at_prompt': k},
                    expect={'interrupt': 'raise:KeyboardInterrupt', 'terminate': 'hard', 'kill': 'hard'}[kind])
    # signal before the first prompt / between trace calls (delivery point = k-th relayed event)
    for kind in ('terminate', 'kill'):
        add(statement=SCRIPTS['single'], policy=pol_next, signal={'kind': kind, 'at_event': 1}, expect='hard')
    add(statement='import time\ntime.sleep(0.5)\nx = 1\n', mode='continuous', signal={'kind': 'interrupt', 'at_event': 2},
        expect='raise:KeyboardInterrupt|plain')
    return specs


def lock_held_by_dead_child(rec: dict) -> bool:
    """F-G3's mechanism: the child died holding the outgoing queue's cross-process write lock; the parent's feeder thread
    waits for it forever, so the sentinel never reaches the monitor."""
    st = (rec or {}).get('stacks_at_timeout') or {}
    return any(any('queues.py' in fr and '_feed' in fr for fr in frames) and th.startswith('QueueFeederThread') for th, frames in st.items())


def interrupted_inside_queue_put(r: dict) -> bool:
    """F-G5's mechanism: the child's main thread blocks for ever acquiring the outgoing queue's `_notempty` lock in `Queue.put`: an
    earlier `put` was cut by the KeyboardInterrupt after it had taken that lock and before the with-block could release it"""
    for block in (r.get('child_stacks') or '').split('\nThread ')[0:] + (r.get('child_stacks') or '').split('\nCurrent thread ')[1:]:
        lines = [l.strip() for l in block.splitlines() if l.strip().startswith('File ')]
        if len(lines) >= 3 and 'threading.py' in lines[0] and 'in __enter__' in lines[0] and 'multiprocessing/queues.py' in lines[1] \
                and 'in put' in lines[1] and any('nextline/spawned/__init__.py' in l and 'in main' in l for l in lines):
            return True
    return False


def sigint_at_prompt_inside_asyncio_run(r: dict) -> bool:
    """F-G6's mechanism: the child's main thread still sits at the prompt, below asyncio's runner (whose SIGINT handler swallowed
    the first SIGINT)"""
    for block in (r.get('child_stacks') or '').split('\nThread '):
        lines = [l.strip() for l in block.splitlines() if l.strip().startswith('File ')]
        if any('pdb_/prompt.py' in l and 'in prompt' in l for l in lines[:4]) and any('asyncio/runners.py' in l and 'in run' in l for l in lines) \
                and any('nextline/spawned/__init__.py' in l and 'in main' in l for l in lines):
            return True
    return False


def idle_pool_worker_waited_for(r: dict) -> bool:
    """F-G9's mechanism: the child's main thread waits in ThreadDoneCallback.close() for a registered thread that is an idle worker of a
    concurrent.futures pool (it only ends at interpreter exit)"""
    blocks = (r.get('child_stacks') or '').split('\nThread ') + (r.get('child_stacks') or '').split('\nCurrent thread ')[1:]
    closing = idle = False
    for block in blocks:
        lines = [l.strip() for l in block.splitlines() if l.strip().startswith('File ')]
        if any('done_callback/thread.py' in l and 'in close' in l for l in lines) and any('nextline/spawned/__init__.py' in l and 'in main' in l for l in lines):
            closing = True
        if len(lines) >= 2 and any('concurrent/futures/thread.py' in l and 'in _worker' in l for l in lines[:3]) and not any('<string>' in l for l in lines):
            idle = True
    return closing and idle


def interrupted_wait_for_outliving_thread(r: dict) -> bool:
    """F-G10's mechanism: the child's main thread is already in the interpreter's shutdown (threading._shutdown, i.e. the run's teardown is over)
    while a thread of the script sits at a Pdb prompt"""
    blocks = (r.get('child_stacks') or '').split('\nThread ') + (r.get('child_stacks') or '').split('\nCurrent thread ')[1:]
    at_prompt = shutting_down = False
    for block in blocks:
        lines = [l.strip() for l in block.splitlines() if l.strip().startswith('File ')]
        if any('pdb_/prompt.py' in l and 'in prompt' in l for l in lines[:4]) and any('<string>' in l for l in lines):
            at_prompt = True
        if lines and 'threading.py' in lines[0] and 'in _shutdown' in lines[0] and any('multiprocessing/process.py' in l and '_bootstrap' in l for l in lines):
            shutting_down = True
    return at_prompt and shutting_down


def check_real(spec: dict, r: dict) -> list[str]:
    rec = r['rec']
    msgs = []
    if rec is None or not rec.get('finished'):
        return [f"the run never finished (waiter not released within {spec['timeout']} s): {(rec or {}).get('errors')}"]
    if spec.get('second_run'):
        if rec.get('second_finished') is not True:
            return [f"the second run of the same object, after the first was ended by {spec['signal']['kind']}(), never finished: {rec.get('errors')}"]
        if rec['states'][:6] != ['initialized', 'running', 'finished', 'initialized', 'running', 'finished']:
            return [f'state sequence over two runs {rec["states"]}']
        ri = [(x['run_no'], x['state']) for x in rec['run_info']]
        if [s for _, s in ri] != ['initialized', 'running', 'finished'] * 2 or len({n for n, _ in ri}) != 2:
            return [f'run_info sequence over two runs {ri}']
        return []
    if rec['states'][:3] != ['initialized', 'running', 'finished']:
        msgs.append(f'state sequence {rec["states"]}')
    ri = [(x['run_no'], x['state']) for x in rec['run_info']]
    if [s for _, s in ri] != ['initialized', 'running', 'finished'] or len({n for n, _ in ri}) != 1:
        msgs.append(f'run_info sequence {ri}')
    exp = spec['expect']
    exc = rec.get('exception') or ''
    res = rec.get('result')
    ok = False
    for e in exp.split('|'):
        if e == 'return' and res == 7 and exc == '':
            ok = True
        if e == 'plain' and res is None and exc == '':
            ok = True
        if e == 'hard' and res is None and exc == '':
            ok = True
        if e.startswith('raise:') and e[6:] in exc:
            ok = True
    if not ok:
        msgs.append(f'expected outcome {exp}: result()={res!r}, format_exception()={exc[-200:]!r}')
    if exp == 'hard' and spec.get('signal') and rec.get('exitcode') in (0, None):
        msgs.append(f'child exit code {rec.get("exitcode")} after {spec["signal"]["kind"]}')
    return msgs


def waiter_cancel_case(api: str, delay: int, ending: str) -> dict:
    """Somebody who waits for the run gives up (its task is cancelled, e.g. by a time-out around the wait) while the script is still going:
    that must not touch the run — it goes on, ends when the child does, and its result is the one reported; another waiter, not cancelled,
    returns at that point."""
    import asyncio
    from .. import fakes, loop as ctl
    from nextline.spawned import RunResult

    async def main() -> dict:
        sc = lifecycle.Scenario(0, 1, False, False)
        await sc.setup()
        nl = sc.nl
        await sc.op('start')
        entered = asyncio.Event()

        async def waiter() -> str:
            if api == 'run_session':
                async with nl.run_session():
                    entered.set()
                return 'returned'
            started = asyncio.Event()

            async def flag() -> None:
                await started.wait()
                entered.set()
            f = asyncio.ensure_future(flag())
            try:
                await nl.run_continue_and_wait(started)
            finally:
                f.cancel()
            return 'returned'
        w = asyncio.ensure_future(waiter())
        await asyncio.wait_for(entered.wait(), timeout=30)
        await lifecycle.settle()
        other = asyncio.ensure_future(nl._imp.wait())          # a second waiter (what close() and run_session() use), never cancelled
        for _ in range(delay):
            await asyncio.sleep(0)
        w.cancel()
        await lifecycle.settle()
        out: dict = {'api': api, 'delay': delay, 'ending': ending, 'waiter': 'cancelled' if w.cancelled() else ('done' if w.done() else 'pending'),
                     'state_after_cancel': nl.state, 'live_after_cancel': len(sc.world.live()), 'other_after_cancel': other.done()}
        for c in sc.world.live():
            if ending == 'ret':
                c.exit(RunResult(ret=5), exitcode=0)
            else:
                c.exit(RunResult(exc=ValueError('raised by the script')), exitcode=0)
        await lifecycle.settle()
        out.update(state_after_exit=nl.state, other_after_exit=other.done(), result=None, exception='')
        if nl.state == 'finished':
            try:
                out['exception'] = nl.format_exception() or ''
                out['result'] = nl.result() if not out['exception'] else None
            except BaseException as e:  # noqa
                out['result_error'] = f'{type(e).__name__}: {e}'
        other.cancel()
        for c in sc.world.live():
            c.exit(RunResult(ret=None), exitcode=0)
        await lifecycle.settle()
        try:
            await asyncio.wait_for(nl.close(), timeout=5)
        except BaseException:  # noqa
            pass
        return out
    fakes.install()
    try:
        return ctl.run(main, ctl.Fifo())
    except (Exception, ctl.StepBudgetExceeded) as e:  # noqa
        return {'api': api, 'delay': delay, 'ending': ending, 'error': f'{type(e).__name__}: {e}'}


def waiter_cancel_oracle(r: dict) -> list[str]:
    if 'error' in r:
        return [f'scenario failed: {r["error"]}']
    m = []
    who = f"a task waiting in {r['api']}() was cancelled {r['delay']} loop step(s) after a second waiter had joined, the script still going"
    if r['state_after_cancel'] != 'running' or r['live_after_cancel'] != 1:
        m.append(f"{who}: the state is {r['state_after_cancel']!r} with {r['live_after_cancel']} live child process(es) (expected: still running, the child untouched)")
    if r['other_after_cancel']:
        m.append(f'{who}: another waiter returned although the run has not ended')
    if r['state_after_exit'] != 'finished':
        m.append(f"{who}; after the child exited the state is {r['state_after_exit']!r}")
    else:
        if not r['other_after_exit']:
            m.append(f'{who}; the run finished but another waiter was not released')
        if r['ending'] == 'ret' and (r['result'] != 5 or r['exception']):
            m.append(f"{who}; the script then returned 5 but result()={r['result']!r}, format_exception()={r['exception'][-120:]!r}")
        if r['ending'] == 'exc' and 'ValueError' not in r['exception']:
            m.append(f"{who}; the script then raised ValueError but format_exception()={r['exception'][-120:]!r}")
    return m


def run(chk: common.Check) -> None:
    chk.cov.rule = ('(1) serial histories (as C01) in which runs end with a result, with none, after signals and with events still in the channel, on '
                    'the real Nextline + simulated child vs the Lean model (results, state and run_info publications, result()/format_exception()); '
                    '(2) real spawn children: {return, plain end, raise, SyntaxError, sys.exit, os._exit, exception in a thread, asyncio script, '
                    'continuous mode} and interrupt/terminate/kill at the k-th open prompt of the main thread, before the first prompt, and during a '
                    'sleep; each case in its own sub-process with a wall-clock bound. Non-trivial: the run did not simply end; distinct = distinct case.')
    chk.assumptions += ['premise of the liveness half: the child eventually exits; hooks do not raise; serial histories',
                        'signals are delivered while the child is quiescent at a prompt, sleeping, or before its first event; a kill while the child is '
                        'writing to the queue (F-G3), SIGINT while another thread sits at an unanswered prompt (F-G2) and code-object statements under '
                        'spawn (F-G1) are recorded findings outside this sweep']
    L = 3 if chk.tier == 'quick' else 4
    scen = _life.gen_serial(chk, L, 1500 if chk.tier == 'quick' else 20000)
    rows = _life.run_serial(chk, scen)
    _life.coverage(chk, rows, lambda r: any('ps:finished' in x for x in r['impl']))
    chk.cov.exhaustive = True
    chk.cov.extra['exhaustive_scope'] = f'all serial histories of length ≤ {L} over {_life.ALPHABET}'
    oracle_fail = []
    for r in rows:
        if r['error']:
            oracle_fail.append(({'init': r['init'], 'ops': r['ops']}, [f'scenario failed: {r["error"]}'], None))
            continue
        m = oracle_serial(r)
        if m:
            oracle_fail.append(({'init': r['init'], 'ops': r['ops'], 'schedule': r['schedule'], 'implementation': r['impl']}, m, None))
    dis = _life.compare(rows, KINDS)
    for api in ('run_session', 'run_continue_and_wait'):
        for delay in (0, 1, 2, 5):
            for ending in ('ret', 'exc'):
                r = waiter_cancel_case(api, delay, ending)
                chk.cov.case(('waiter-cancelled', api, delay, ending))
                chk.cov.count('kinds', 'a-waiter-is-cancelled-while-the-script-is-going')
                m = waiter_cancel_oracle(r)
                if m:
                    oracle_fail.append(({'waiter_cancel': r}, m, None))
    specs = real_specs(chk)
    for spec, r in zip(specs, common.real_runs(specs, jobs=10, hard_timeout=100)):
        chk.cov.case(('real', spec['expect'], repr(spec.get('signal')), spec['statement'][:40]))
        chk.cov.count('real_ending', spec['expect'] + ('+' + spec['signal']['kind'] if spec.get('signal') else ''))
        m = check_real(spec, r)
        if m:
            sig = None
            if 'never finished' in m[0] and spec['expect'] == 'hard' and lock_held_by_dead_child(r['rec']):
                sig = 'child_died_holding_queue_write_lock'
            if 'never finished' in m[0] and (spec.get('signal') or {}).get('kind') == 'interrupt' and interrupted_inside_queue_put(r):
                sig = 'interrupt_inside_queue_put'
            if 'never finished' in m[0] and (spec.get('signal') or {}).get('kind') == 'interrupt' and sigint_at_prompt_inside_asyncio_run(r):
                sig = 'sigint_at_prompt_inside_asyncio_run'
            if 'never finished' in m[0] and spec.get('interrupt_at_teardown') and interrupted_wait_for_outliving_thread(r):
                sig = 'interrupted_wait_for_outliving_thread'
            if 'never finished' in m[0] and spec.get('executor_left') and idle_pool_worker_waited_for(r):
                sig = 'idle_pool_worker_waited_for'
            oracle_fail.append(({'real_run': {k: v for k, v in spec.items()}, 'stacks': (r['rec'] or {}).get('stacks_at_timeout'), 'child_stacks': (r.get('child_stacks') or '')[-4000:],
                                 'states': (r['rec'] or {}).get('states')}, m, sig))
    _life.finish(chk, 'C02', oracle_fail, dis, 'results, state and run_info publications, result()/format_exception()')
