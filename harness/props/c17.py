"""C17 — waiting on a child process always yields its outcome and reaps it.  Model H (`NLV.Model.RunProc`).

The decision table is proved in Lean; the correspondence sweeps the real `run_in_process` under the spawn context:
every outcome × signal instants (incl. racing completion) × {log collection, initializer}, each case in its own
sub-process with a wall-clock bound, and compares with the model's `await` for the outcome class that occurred.
"""
from __future__ import annotations

import json
import os
import shutil
import subprocess
import tempfile
from concurrent.futures import ThreadPoolExecutor
from pathlib import Path
from typing import Optional, Any

from .. import common


def cases(chk: common.Check) -> list[dict]:
    cs: list[dict] = []
    plain = [
        ('ret_value', [], 'returned 1'), ('ret_unpicklable', [], 'returned 0'), ('raise_value_error', [], 'raised 1'),
        ('raise_dynamic', [], 'raised 0'), ('sys_exit', [], 'systemExit'), ('os_exit', [0], 'hardExit 0'), ('os_exit', [3], 'hardExit 3'),
        ('os_exit', [1], 'hardExit 1'), ('self_kill', [], 'signal 9'),
    ]
    for f, a, cls in plain:
        for lg in (False, True):
            cs.append({'func': f, 'args': a, 'logging': lg, 'classes': [cls]})
    cs.append({'func': 'ret_value', 'args': [], 'logging': True, 'initializer': True, 'classes': ['returned 1']})
    cs.append({'func': 'os_exit', 'args': [2], 'logging': False, 'initializer': True, 'classes': ['hardExit 2']})
    # F-H1 witness (fixed): a log backlog larger than a pipe buffer at exit
    cs.append({'func': 'noisy', 'args': [300], 'logging': True, 'classes': ['returned 1']})
    cs.append({'func': 'noisy', 'args': [3000], 'logging': True, 'classes': ['returned 1']})
    # log collection with a slow (blocking) log handler in the parent: the child logs a handful of short records just before it returns /
    # raises, so the log listener is seconds behind when the process has exited.  When awaiting the handle yields, the listener must have
    # finished (every record handled, no helper task left).  delay 0 = the ordinary fast handler, as a control.
    slow = [(10, 0.5, 'return'), (8, 0.6, 'raise'), (8, 0.0, 'return')]
    if chk.tier != 'quick':
        slow += [(12, 0.3, 'return'), (4, 1.0, 'return'), (20, 0.15, 'raise'), (1, 3.0, 'return')]
    for n, delay, how in slow:
        cs.append({'func': 'log_then', 'args': [n, how], 'logging': True, 'slow_handler': {'delay': delay}, 'n_records': n,
                   'classes': ['returned 1'] if how == 'return' else ['raised 1'], 'timeout': 60})
    # the function raises something that is not an Exception (asyncio's CancelledError is a BaseException): it is an outcome like any other
    for kind in ('asyncio', 'futures', 'keyboard', 'generator-exit'):
        for lg in (False, True):
            cs.append({'func': 'raise_cancelled', 'args': [kind], 'logging': lg, 'classes': ['kbd' if kind == 'keyboard' else 'raised 1']})
    # an awaiter of the handle gives up (is cancelled) while the child is still running; awaiting the handle again yields the outcome
    for f, a, cls in (('sleep', [1.5], 'returned 1'),):
        for lg in (False, True):
            # (without log collection the unchanged tree fails this: open finding F-H3)
            for after in (0.0, 0.05, 0.3):
                cs.append({'func': f, 'args': a, 'logging': lg, 'classes': [cls], 'cancel_first_awaiter': after})
    # the function returns at once but the process takes 4.5 s to exit (a non-daemon thread): awaiting the handle yields only then
    cs.append({'func': 'linger', 'args': [4.5], 'logging': False, 'classes': ['returned 1'], 'timeout': 30})
    cs.append({'func': 'linger', 'args': [4.5], 'logging': True, 'classes': ['returned 1'], 'timeout': 30})
    # many awaiters of one handle, a fresh one at every event-loop iteration around the exit of the process: each yields the outcome
    for f, a in (('ret_value', []), ('sleep', [0.2]), ('raise_value_error', [])):
        for lg in (False, True):
            cs.append({'func': f, 'args': a, 'logging': lg, 'classes': ['returned 1'] if f != 'raise_value_error' else ['raised 1'], 'many_awaiters': True})
    # the function has returned but the process lingers: kill/terminate from another task while the handle is being awaited must get
    # through at once (the event loop is not blocked by the wait for the process)
    for lg in (False, True):
        for kind, signo in (('kill', 9), ('terminate', 15)):
            # (the value had already been returned when the signal arrived: the outcome is the value, the exit code that of the signal)
            cs.append({'func': 'linger', 'args': [8.0], 'logging': lg, 'signal': {'kind': kind, 'at': 1.0}, 'classes': ['returned 1'],
                       'timeout': 30, 'prompt_signal': True, 'exitcode': -signo})
    instants = [0.0, 0.12, 0.3] if chk.tier == 'quick' else [0.0, 0.02, 0.05, 0.08, 0.12, 0.2, 0.3, 0.35, 0.4]
    for kind, signo in (('interrupt', 2), ('terminate', 15), ('kill', 9)):
        for at in instants:
            for lg in (False, True):
                # func sleeps 0.3 s: `at` = 0 hits interpreter boot, 0.12 the sleep, 0.3 races normal completion
                allowed = ['signal %d' % signo, 'returned 1']
                if kind == 'interrupt':
                    allowed += ['kbd', 'hardExit 1']      # KeyboardInterrupt inside func (sent back), or uncaught at boot → exit code 1
                cs.append({'func': 'sleep', 'args': [0.3], 'logging': lg, 'signal': {'kind': kind, 'at': at}, 'classes': allowed})
    cs.append({'func': 'sleep_catch', 'args': [0.3], 'logging': False, 'signal': {'kind': 'interrupt', 'at': 0.15},
               'classes': ['returned 1', 'signal 2', 'hardExit 1']})
    cs += repeated_request_cases(chk)
    return cs


def repeated_request_cases(chk: common.Check) -> list[dict]:
    """Repeated terminate / kill requests, and requests after the child is gone: the caller knows that the process has exited only from the
    await returning, so until then it may go on asking (a client repeating "terminate" because the run is not yet reported as finished).
    Another task issues a request at every iteration of the event loop (or every few ms) from some instant until awaiting the handle has
    yielded -- hence also in the window in which the child has already been reaped.  None may raise; the outcome is that of the first
    effective request (or the normal one when the child ignores SIGTERM / had already returned).  interrupt() takes part after a first, deadly request."""
    cs: list[dict] = []
    quick = chk.tier == 'quick'

    def add(func, args, lg, init, hammer, classes, exitcode=None):
        c = {'func': func, 'args': args, 'logging': lg, 'hammer': hammer, 'classes': classes, 'timeout': 30}
        if init:
            c['initializer'] = True
        if exitcode is not None:
            c['exitcode'] = exitcode
        cs.append(c)
    # (1) a child that would run for 30 s: the first request ends it, the rest arrive while it dies, is reaped, and the handle winds up
    for kinds, signo in ((['kill'], 9), (['terminate'], 15), (['kill', 'terminate'], 9)):
        for lg, init in ((False, False), (True, True)) if quick else ((False, False), (True, False), (False, True), (True, True)):
            for at in (0.3,) if quick else (0.0, 0.3, 1.0):
                add('sleep', [30], lg, init, {'kinds': kinds, 'at': at, 'every': 0}, [f'signal {signo}'], -signo)
    # interrupt() after the first, deadly request: it reaches a dying or already reaped child and must be as harmless as the others
    # (F-H2, fixed: send_signal used a bare os.kill and raised ProcessLookupError once the child had been reaped)
    for first, signo in (('kill', 9), ('terminate', 15)):
        for lg in (False, True):
            add('sleep', [30], lg, lg, {'kinds': [first, 'interrupt'], 'at': 0.3, 'every': 0}, [f'signal {signo}'], -signo)
            add('sleep', [30], lg, False, {'kinds': [first, 'interrupt', 'interrupt'], 'at': 0.3, 'every': 0.002}, [f'signal {signo}'], -signo)
    for kinds in (['terminate', 'kill'], ['kill', 'kill', 'terminate']):
        # which of the two signals ends the child depends on how fast it dies from the first
        add('sleep', [30], True, False, {'kinds': kinds, 'at': 0.3, 'every': 0}, ['signal 9', 'signal 15'])
    for every in (0.002,) if quick else (0.001, 0.002, 0.005, 0.02):
        for lg in (False, True):
            add('sleep', [30], lg, False, {'kinds': ['kill'], 'at': 0.3, 'every': every}, ['signal 9'], -9)
            add('sleep', [30], lg, lg, {'kinds': ['terminate'], 'at': 0.3, 'every': every}, ['signal 15'], -15)
    # (under heavy machine load — 24 busy processes — this family once ended with exit code -15 and no value: whether a SIGTERM can still get through
    # after the function has returned was not analysed in the time left; both outcomes are accepted, what is checked here is that no request raises)
    # (2) normal completion under a hail of requests: the child ignores SIGTERM (the requests start once it has said so) and returns
    for lg, init in ((False, False), (True, False), (True, True)):
        for every in (0, 0.002):
            add('ignore_term_return', ['ready.flag', 0.5], lg, init, {'kinds': ['terminate'], 'flag': 'ready.flag', 'every': every}, ['returned 1', 'signal 15'])
    # (3) requests that start around the instant the function returns (the child says when it is about to): the value got through or not
    # (without log collection: a kill that lands while the child is writing its last records into the log queue can leave that queue's lock held
    # for ever — the mechanism of the recorded finding F-G3 — after which the listener never sees the sentinel and the handle never yields; seen once
    # in about ten runs of this family with log collection on, not reproduced in isolation)
    for kinds, signo in ((['kill'], 9), (['terminate'], 15), (['terminate', 'kill'], None)):
        for lg in (False,):
            for t in (0.0, 0.05) if quick else (0.0, 0.01, 0.02, 0.05, 0.1):
                add('flag_then_return', ['ready.flag', t], lg, False, {'kinds': kinds, 'flag': 'ready.flag', 'every': 0},
                    ['returned 1'] + ([f'signal {signo}'] if signo else ['signal 9', 'signal 15']))
    return cs


def _one(spec: dict) -> dict:
    tmp = tempfile.mkdtemp(prefix='nlv-rp-')
    try:
        out = Path(tmp) / 'out.json'
        env = dict(os.environ)
        env['PYTHONPATH'] = f'{common.VERIF}:' + env.get('PYTHONPATH', '')
        p = subprocess.Popen(['/venv/bin/python', '-m', 'harness.runproc_case', json.dumps(spec), str(out)], cwd=tmp, env=env,
                             stdout=subprocess.DEVNULL, stderr=subprocess.DEVNULL, start_new_session=True)
        try:
            p.wait(timeout=spec.get('timeout', 20) + 20)
        except subprocess.TimeoutExpired:
            pass
        finally:
            try:
                os.killpg(p.pid, 9)
            except ProcessLookupError:
                pass
        if out.exists():
            return json.loads(out.read_text())
        return {'awaited': False, 'raised_out': 'HARD-TIMEOUT'}
    finally:
        shutil.rmtree(tmp, ignore_errors=True)


def classify(res: dict) -> str:
    """which outcome class the observed exit belongs to (from exit code and what was returned)"""
    ec = res.get('exitcode')
    if res.get('raised') == 'KeyboardInterrupt':
        return 'kbd'
    if res.get('raised') == 'SystemExit':
        return 'systemExit'
    if res.get('raised') in ('ValueError', 'CancelledError', 'GeneratorExit'):
        return 'raised 1'
    if res.get('raised'):
        return 'raisedOrPickling'
    if not res.get('returned_is_none', True):
        return 'returned 1'
    if ec is not None and ec < 0:
        return f'signal {-ec}'
    if ec is not None and ec >= 0:
        return f'hardExit {ec}'
    return 'unknown'


def hammer_messages(spec: dict, res: dict) -> list[str]:
    """oracle of the repeated-request cases: no terminate / kill request issued before awaiting the handle yielded may raise"""
    ham = spec.get('hammer')
    if not ham:
        return []
    msgs = []
    he = res.get('hammer_error')
    if he:
        seen = he.get('reaped_exit_code_seen_before')
        msgs.append(f"{he['request']}() raised {he['error']} -- request no. {he['nth']} of a task repeating {'/'.join(ham['kinds'])} "
                    f"{'at every event-loop iteration' if not ham.get('every') else 'every %s s' % ham['every']} "
                    f"{'from %s s after the start' % ham['at'] if 'at' in ham else 'from the moment the child said it was ready'}, "
                    f"{he['after_s']} s after the start, while awaiting the handle had not yet yielded"
                    + (f' (the child had already been reaped, exit code {seen})' if seen is not None else ''))
    if res.get('hammer_task_error'):
        msgs.append(f"scenario failed: the requesting task did not finish: {res['hammer_task_error']}")
    if ham.get('flag') and not res.get('hammer_flag_seen') and not he:
        msgs.append(f"scenario failed: the child never reported that it had started {spec['func']} (no requests were issued)")
    elif 'at' in ham and not he and not res.get('hammer_requests'):
        msgs.append('scenario failed: no request was issued before awaiting the handle yielded')
    return msgs


def run(chk: common.Check) -> None:
    chk.cov.rule = ('run_in_process under the spawn context, each case in its own sub-process with a wall-clock bound: outcomes {return, unpicklable '
                    'return, raise, dynamic exception class, sys.exit, os._exit(0/1/3), self-SIGKILL} × {log collection on/off} (+ initializer), a '
                    'log backlog larger than a pipe buffer, a slow (blocking) log handler in the parent with records logged just before the end, and SIGINT/SIGTERM/SIGKILL at instants from interpreter boot to racing completion. '
                    'Non-trivial: the child did not simply return; distinct = distinct case.')
    chk.assumptions += ['what the future resolves to for each way of dying is concurrent.futures behaviour (modelled in futureOf, exercised here)',
                        'reaping and thread clean-up are observed, not proved']
    cs = cases(chk)
    with ThreadPoolExecutor(max_workers=12) as ex:
        results = list(ex.map(_one, cs))
    lines = []
    oracle_fail = []
    disagreements = []
    observed = []
    for spec, res in zip(cs, results):
        chk.cov.case(json.dumps(spec, sort_keys=True), trivial=spec['func'] == 'ret_value' and not spec.get('signal'))
        chk.cov.count('func', spec['func'])
        if spec.get('slow_handler'):
            chk.cov.count('kinds', 'slow-log-handler' if spec['slow_handler']['delay'] else 'fast-log-handler')
        if spec.get('hammer'):
            chk.cov.count('kinds', 'repeated-requests')
            if res.get('hammer_requests_after_reaped'):
                chk.cov.count('kinds', 'requests-after-child-reaped')
            if not res.get('hammer_requests') and not res.get('hammer_error'):
                chk.cov.count('kinds', 'repeated-requests-none-issued-in-time')
        msgs = []
        if not res.get('awaited'):
            msgs.append(f"awaiting the handle did not yield: {res.get('raised_out')}")
        else:
            cls = classify(res)
            chk.cov.count('outcome_class', cls)
            if res['exitcode'] is None:
                msgs.append('the process has no exit code after the handle was awaited')
            if res['is_alive']:
                msgs.append('the process is still alive after the handle was awaited')
            if res.get('tasks_left_at_yield'):
                sh = spec.get('slow_handler')
                msgs.append(f"{len(res['tasks_left_at_yield'])} helper task(s) still running at the instant awaiting the handle yielded "
                            f"(after {res.get('yield_after_s')} s): {res['tasks_left_at_yield']}"
                            + (f"; log collection with a blocking log handler in the parent ({sh['delay']} s per record): "
                               f"{res.get('records_handled_at_yield')} of the child's {spec['n_records']} records handled by then "
                               f"({res.get('records_handled_finally')} after {res.get('records_finally_after_s')} s)" if sh else ''))
            if spec.get('slow_handler') and res.get('records_handled_at_yield') != spec['n_records']:
                msgs.append(f"log collection with a blocking log handler in the parent ({spec['slow_handler']['delay']} s per record): only "
                            f"{res.get('records_handled_at_yield')} of the {spec['n_records']} records the child logged before it finished had been "
                            f"handled when awaiting the handle yielded (after {res.get('yield_after_s')} s): the log listener had not finished")
            if res['pending_tasks']:
                msgs.append(f"{res['pending_tasks']} helper task(s) still pending after the handle was awaited")
            if not res.get('times_ok'):
                msgs.append('creation time is after exit time')
            if res.get('signal_error'):
                msgs.append(f"a signal request raised: {res['signal_error']}")
            msgs += hammer_messages(spec, res)
            if spec.get('many_awaiters'):
                if res.get('awaiter_errors'):
                    msgs.append(f"{res['awaiters']} tasks awaited the handle, one started at every event-loop iteration: awaiting raised {res['awaiter_errors'][0]}")
                if res.get('awaiters_pending'):
                    msgs.append(f"{res['awaiters_pending']} of {res['awaiters']} awaiters of the handle never got the outcome")
            if 'exitcode' in spec and res['exitcode'] != spec['exitcode']:
                msgs.append(f"exit code {res['exitcode']}, expected {spec['exitcode']}")
            if spec.get('prompt_signal') and (res.get('signal_sent_late_by') is None or res['signal_sent_late_by'] > 2.5):
                msgs.append(f"a {spec['signal']['kind']} request from another task, due {spec['signal']['at']} s after the start, could be issued only "
                            f"{res.get('signal_sent_late_by')} s late: the event loop was blocked while the handle was awaited")
            allowed = spec['classes']
            ok_cls = cls in allowed or (cls == 'raisedOrPickling' and any(a in ('returned 0', 'raised 0') for a in allowed))
            if not ok_cls:
                msgs.append(f'outcome class {cls} (returned={res["returned"]}, raised={res["raised"]}, exitcode={res["exitcode"]}) '
                            f'is none of the expected {allowed}')
            mcls = cls if cls != 'raisedOrPickling' else [a for a in allowed if a in ('returned 0', 'raised 0')][0]
            lines.append(f"await {int(bool(spec.get('logging')))} {mcls}")
            observed.append((spec, res, f"ret={0 if res['returned_is_none'] else 1} "
                             f"exc={'-' if res['raised'] is None else ('X' if mcls in ('returned 0', 'raised 0', 'raised 1') else res['raised'])} raised=0"))
        if msgs:
            oracle_fail.append((spec, msgs, res))
    model_err = None
    try:
        mo = common.model_batch('runproc', lines) if lines else []
        for (spec, res, got), m in zip(observed, mo):
            mm = m
            # the model names the exception class only for SystemExit / KeyboardInterrupt; user and pickling errors are 'some class'
            parts = dict(x.split('=') for x in mm.split())
            if parts['exc'] not in ('-', 'SystemExit', 'KeyboardInterrupt'):
                parts['exc'] = 'X'
            mm = f"ret={parts['ret']} exc={parts['exc']} raised={parts['raised']}"
            if mm != got:
                disagreements.append((spec, res, mm, got))
        chk.cov.traces_validated = len(mo)
    except Exception as e:
        model_err = f'{type(e).__name__}: {e}'
    chk.cov.sample({'case': cs[3], 'observed': results[3]})
    chk.cov.sample({'case': cs[-2], 'observed': results[-2]})
    def known_sig(spec: dict, msgs: list, res: dict) -> Optional[str]:
        # open finding F-H3: the cancellation of an awaiter is swallowed by the helper task and recorded as if the function had raised CancelledError
        if spec.get('cancel_first_awaiter') is not None and len(msgs) == 1 and (
                (res.get('first_awaiter') == 'returned' and res.get('raised') == 'CancelledError' and msgs[0].startswith('outcome class raised 1'))
                or msgs[0].startswith('awaiting the handle did not yield: CancelledError')):
            # (second symptom: the cancellation reached the helper task at a point where it is not swallowed; awaiting the handle then raises it)
            return 'awaiter_cancellation_recorded_as_outcome'
        return None
    real = [f for f in oracle_fail if known_sig(*f) is None]
    for spec, msgs, res in real[:5] + [f for f in oracle_fail if known_sig(*f) is not None][:1]:
        chk.violation(f'C17 oracle: {msgs[0]}', {'case': spec, 'oracle_messages': msgs, 'observed': res}, signature=known_sig(spec, msgs, res))
    broken = common.proof_broken(chk)
    if model_err:
        broken.append(f'model driver unusable: {model_err}')
    if disagreements:
        chk.cov.disagreements_checked = len(disagreements)
        spec, res, mm, got = disagreements[0]
        broken.append(f'correspondence H broken on {len(disagreements)} cases; first: {spec}: model {mm!r} vs implementation {got!r}')
    if broken and not real:
        chk.violation('C17: ' + ' | '.join(broken[:3]), {'no_longer_checks': broken,
                                                        'first_disagreement': disagreements[0][:2] if disagreements else None}, no_input=True)
