"""C17 — waiting on a child process always yields its outcome and reaps it.  Model H (`NLV.Model.RunProc`).

The decision table is proved in Lean; the correspondence sweeps the real `run_in_process` under the spawn context:
every outcome × signal instants (incl. racing completion) × {log collection, initializer}, each case in its own
sub-process with a wall-clock bound, and compares with the model's `await` for the outcome class that occurred.
"""
from __future__ import annotations

import json
import os
import shutil
import subprocess
import tempfile
from concurrent.futures import ThreadPoolExecutor
from pathlib import Path
from typing import Any

from .. import common


def cases(chk: common.Check) -> list[dict]:
    cs: list[dict] = []
    plain = [
        ('ret_value', [], 'returned 1'), ('ret_unpicklable', [], 'returned 0'), ('raise_value_error', [], 'raised 1'),
        ('raise_dynamic', [], 'raised 0'), ('sys_exit', [], 'systemExit'), ('os_exit', [0], 'hardExit 0'), ('os_exit', [3], 'hardExit 3'),
        ('os_exit', [1], 'hardExit 1'), ('self_kill', [], 'signal 9'),
    ]
    for f, a, cls in plain:
        for lg in (False, True):
            cs.append({'func': f, 'args': a, 'logging': lg, 'classes': [cls]})
    cs.append({'func': 'ret_value', 'args': [], 'logging': True, 'initializer': True, 'classes': ['returned 1']})
    cs.append({'func': 'os_exit', 'args': [2], 'logging': False, 'initializer': True, 'classes': ['hardExit 2']})
    # F-H1 witness (fixed): a log backlog larger than a pipe buffer at exit
    cs.append({'func': 'noisy', 'args': [300], 'logging': True, 'classes': ['returned 1']})
    cs.append({'func': 'noisy', 'args': [3000], 'logging': True, 'classes': ['returned 1']})
    # log collection with a slow (blocking) log handler in the parent: the child logs a handful of short records just before it returns /
    # raises, so the log listener is seconds behind when the process has exited.  When awaiting the handle yields, the listener must have
    # finished (every record handled, no helper task left).  delay 0 = the ordinary fast handler, as a control.
    slow = [(10, 0.5, 'return'), (8, 0.6, 'raise'), (8, 0.0, 'return')]
    if chk.tier != 'quick':
        slow += [(12, 0.3, 'return'), (4, 1.0, 'return'), (20, 0.15, 'raise'), (1, 3.0, 'return')]
    for n, delay, how in slow:
        cs.append({'func': 'log_then', 'args': [n, how], 'logging': True, 'slow_handler': {'delay': delay}, 'n_records': n,
                   'classes': ['returned 1'] if how == 'return' else ['raised 1'], 'timeout': 60})
    # the function returns at once but the process takes 4.5 s to exit (a non-daemon thread): awaiting the handle yields only then
    cs.append({'func': 'linger', 'args': [4.5], 'logging': False, 'classes': ['returned 1'], 'timeout': 30})
    cs.append({'func': 'linger', 'args': [4.5], 'logging': True, 'classes': ['returned 1'], 'timeout': 30})
    # many awaiters of one handle, a fresh one at every event-loop iteration around the exit of the process: each yields the outcome
    for f, a in (('ret_value', []), ('sleep', [0.2]), ('raise_value_error', [])):
        for lg in (False, True):
            cs.append({'func': f, 'args': a, 'logging': lg, 'classes': ['returned 1'] if f != 'raise_value_error' else ['raised 1'], 'many_awaiters': True})
    # the function has returned but the process lingers: kill/terminate from another task while the handle is being awaited must get
    # through at once (the event loop is not blocked by the wait for the process)
    for lg in (False, True):
        for kind, signo in (('kill', 9), ('terminate', 15)):
            # (the value had already been returned when the signal arrived: the outcome is the value, the exit code that of the signal)
            cs.append({'func': 'linger', 'args': [8.0], 'logging': lg, 'signal': {'kind': kind, 'at': 1.0}, 'classes': ['returned 1'],
                       'timeout': 30, 'prompt_signal': True, 'exitcode': -signo})
    instants = [0.0, 0.12, 0.3] if chk.tier == 'quick' else [0.0, 0.02, 0.05, 0.08, 0.12, 0.2, 0.3, 0.35, 0.4]
    for kind, signo in (('interrupt', 2), ('terminate', 15), ('kill', 9)):
        for at in instants:
            for lg in (False, True):
                # func sleeps 0.3 s: `at` = 0 hits interpreter boot, 0.12 the sleep, 0.3 races normal completion
                allowed = ['signal %d' % signo, 'returned 1']
                if kind == 'interrupt':
                    allowed += ['kbd', 'hardExit 1']      # KeyboardInterrupt inside func (sent back), or uncaught at boot → exit code 1
                cs.append({'func': 'sleep', 'args': [0.3], 'logging': lg, 'signal': {'kind': kind, 'at': at}, 'classes': allowed})
    cs.append({'func': 'sleep_catch', 'args': [0.3], 'logging': False, 'signal': {'kind': 'interrupt', 'at': 0.15},
               'classes': ['returned 1', 'signal 2', 'hardExit 1']})
    return cs


def _one(spec: dict) -> dict:
    tmp = tempfile.mkdtemp(prefix='nlv-rp-')
    try:
        out = Path(tmp) / 'out.json'
        env = dict(os.environ)
        env['PYTHONPATH'] = f'{common.VERIF}:' + env.get('PYTHONPATH', '')
        p = subprocess.Popen(['/venv/bin/python', '-m', 'harness.runproc_case', json.dumps(spec), str(out)], cwd=tmp, env=env,
                             stdout=subprocess.DEVNULL, stderr=subprocess.DEVNULL, start_new_session=True)
        try:
            p.wait(timeout=spec.get('timeout', 20) + 20)
        except subprocess.TimeoutExpired:
            pass
        finally:
            try:
                os.killpg(p.pid, 9)
            except ProcessLookupError:
                pass
        if out.exists():
            return json.loads(out.read_text())
        return {'awaited': False, 'raised_out': 'HARD-TIMEOUT'}
    finally:
        shutil.rmtree(tmp, ignore_errors=True)


def classify(res: dict) -> str:
    """which outcome class the observed exit belongs to (from exit code and what was returned)"""
    ec = res.get('exitcode')
    if res.get('raised') == 'KeyboardInterrupt':
        return 'kbd'
    if res.get('raised') == 'SystemExit':
        return 'systemExit'
    if res.get('raised') in ('ValueError',):
        return 'raised 1'
    if res.get('raised'):
        return 'raisedOrPickling'
    if not res.get('returned_is_none', True):
        return 'returned 1'
    if ec is not None and ec < 0:
        return f'signal {-ec}'
    if ec is not None and ec >= 0:
        return f'hardExit {ec}'
    return 'unknown'


def run(chk: common.Check) -> None:
    chk.cov.rule = ('run_in_process under the spawn context, each case in its own sub-process with a wall-clock bound: outcomes {return, unpicklable '
                    'return, raise, dynamic exception class, sys.exit, os._exit(0/1/3), self-SIGKILL} × {log collection on/off} (+ initializer), a '
                    'log backlog larger than a pipe buffer, a slow (blocking) log handler in the parent with records logged just before the end, and SIGINT/SIGTERM/SIGKILL at instants from interpreter boot to racing completion. '
                    'Non-trivial: the child did not simply return; distinct = distinct case.')
    chk.assumptions += ['what the future resolves to for each way of dying is concurrent.futures behaviour (modelled in futureOf, exercised here)',
                        'reaping and thread clean-up are observed, not proved']
    cs = cases(chk)
    with ThreadPoolExecutor(max_workers=12) as ex:
        results = list(ex.map(_one, cs))
    lines = []
    oracle_fail = []
    disagreements = []
    observed = []
    for spec, res in zip(cs, results):
        chk.cov.case(json.dumps(spec, sort_keys=True), trivial=spec['func'] == 'ret_value' and not spec.get('signal'))
        chk.cov.count('func', spec['func'])
        if spec.get('slow_handler'):
            chk.cov.count('kinds', 'slow-log-handler' if spec['slow_handler']['delay'] else 'fast-log-handler')
        msgs = []
        if not res.get('awaited'):
            msgs.append(f"awaiting the handle did not yield: {res.get('raised_out')}")
        else:
            cls = classify(res)
            chk.cov.count('outcome_class', cls)
            if res['exitcode'] is None:
                msgs.append('the process has no exit code after the handle was awaited')
            if res['is_alive']:
                msgs.append('the process is still alive after the handle was awaited')
            if res.get('tasks_left_at_yield'):
                sh = spec.get('slow_handler')
                msgs.append(f"{len(res['tasks_left_at_yield'])} helper task(s) still running at the instant awaiting the handle yielded "
                            f"(after {res.get('yield_after_s')} s): {res['tasks_left_at_yield']}"
                            + (f"; log collection with a blocking log handler in the parent ({sh['delay']} s per record): "
                               f"{res.get('records_handled_at_yield')} of the child's {spec['n_records']} records handled by then "
                               f"({res.get('records_handled_finally')} after {res.get('records_finally_after_s')} s)" if sh else ''))
            if spec.get('slow_handler') and res.get('records_handled_at_yield') != spec['n_records']:
                msgs.append(f"log collection with a blocking log handler in the parent ({spec['slow_handler']['delay']} s per record): only "
                            f"{res.get('records_handled_at_yield')} of the {spec['n_records']} records the child logged before it finished had been "
                            f"handled when awaiting the handle yielded (after {res.get('yield_after_s')} s): the log listener had not finished")
            if res['pending_tasks']:
                msgs.append(f"{res['pending_tasks']} helper task(s) still pending after the handle was awaited")
            if not res.get('times_ok'):
                msgs.append('creation time is after exit time')
            if res.get('signal_error'):
                msgs.append(f"a signal request raised: {res['signal_error']}")
            if spec.get('many_awaiters'):
                if res.get('awaiter_errors'):
                    msgs.append(f"{res['awaiters']} tasks awaited the handle, one started at every event-loop iteration: awaiting raised {res['awaiter_errors'][0]}")
                if res.get('awaiters_pending'):
                    msgs.append(f"{res['awaiters_pending']} of {res['awaiters']} awaiters of the handle never got the outcome")
            if 'exitcode' in spec and res['exitcode'] != spec['exitcode']:
                msgs.append(f"exit code {res['exitcode']}, expected {spec['exitcode']}")
            if spec.get('prompt_signal') and (res.get('signal_sent_late_by') is None or res['signal_sent_late_by'] > 2.5):
                msgs.append(f"a {spec['signal']['kind']} request from another task, due {spec['signal']['at']} s after the start, could be issued only "
                            f"{res.get('signal_sent_late_by')} s late: the event loop was blocked while the handle was awaited")
            allowed = spec['classes']
            ok_cls = cls in allowed or (cls == 'raisedOrPickling' and any(a in ('returned 0', 'raised 0') for a in allowed))
            if not ok_cls:
                msgs.append(f'outcome class {cls} (returned={res["returned"]}, raised={res["raised"]}, exitcode={res["exitcode"]}) '
                            f'is none of the expected {allowed}')
            mcls = cls if cls != 'raisedOrPickling' else [a for a in allowed if a in ('returned 0', 'raised 0')][0]
            lines.append(f"await {int(bool(spec.get('logging')))} {mcls}")
            observed.append((spec, res, f"ret={0 if res['returned_is_none'] else 1} "
                             f"exc={'-' if res['raised'] is None else ('X' if mcls in ('returned 0', 'raised 0', 'raised 1') else res['raised'])} raised=0"))
        if msgs:
            oracle_fail.append((spec, msgs, res))
    model_err = None
    try:
        mo = common.model_batch('runproc', lines) if lines else []
        for (spec, res, got), m in zip(observed, mo):
            mm = m
            # the model names the exception class only for SystemExit / KeyboardInterrupt; user and pickling errors are 'some class'
            parts = dict(x.split('=') for x in mm.split())
            if parts['exc'] not in ('-', 'SystemExit', 'KeyboardInterrupt'):
                parts['exc'] = 'X'
            mm = f"ret={parts['ret']} exc={parts['exc']} raised={parts['raised']}"
            if mm != got:
                disagreements.append((spec, res, mm, got))
        chk.cov.traces_validated = len(mo)
    except Exception as e:
        model_err = f'{type(e).__name__}: {e}'
    chk.cov.sample({'case': cs[3], 'observed': results[3]})
    chk.cov.sample({'case': cs[-2], 'observed': results[-2]})
    for spec, msgs, res in oracle_fail[:5]:
        chk.violation(f'C17 oracle: {msgs[0]}', {'case': spec, 'oracle_messages': msgs, 'observed': res})
    broken = common.proof_broken(chk)
    if model_err:
        broken.append(f'model driver unusable: {model_err}')
    if disagreements:
        chk.cov.disagreements_checked = len(disagreements)
        spec, res, mm, got = disagreements[0]
        broken.append(f'correspondence H broken on {len(disagreements)} cases; first: {spec}: model {mm!r} vs implementation {got!r}')
    if broken and not oracle_fail:
        chk.violation('C17: ' + ' | '.join(broken[:3]), {'no_longer_checks': broken,
                                                        'first_disagreement': disagreements[0][:2] if disagreements else None}, no_input=True)
