"""One case of the C17 sweep:  python -m harness.runproc_case '<json spec>' <out.json>"""
import asyncio
import functools
import json
import logging
import multiprocessing as mp
import os
import sys
import threading
import time
from typing import Any

from harness import runproc_funcs as F


class SlowHandler(logging.Handler):
    """a blocking log handler in the parent (SMTP/HTTP/syslog-over-network style): `delay` seconds per record"""

    def __init__(self, delay: float) -> None:
        super().__init__()
        self.delay = delay
        self.handled: list = []

    def emit(self, record: logging.LogRecord) -> None:
        if self.delay:
            time.sleep(self.delay)
        self.handled.append(record.getMessage())


def _task_name(t: 'asyncio.Task') -> str:
    return getattr(t.get_coro(), '__qualname__', None) or repr(t)


async def amain(spec: dict) -> dict:
    from nextline.utils import run_in_process
    slow = spec.get('slow_handler')
    handler = None
    if slow:
        handler = SlowHandler(slow['delay'])
        lg = logging.getLogger(F.SLOW_LOGGER)
        lg.addHandler(handler)
        lg.propagate = False
    tasks_before = set(asyncio.all_tasks())
    func = functools.partial(getattr(F, spec['func']), *spec.get('args', []))
    kw = {}
    if spec.get('initializer'):
        kw['initializer'] = F.initializer
    t0 = time.time()
    threads_before = threading.active_count()
    running = await run_in_process(func, mp_context=mp.get_context('spawn'), collect_logging=spec.get('logging', False), **kw)
    res: dict = {'pid': running.process.pid}
    sig = spec.get('signal')

    async def send() -> None:
        await asyncio.sleep(sig['at'])
        try:
            res['signal_sent_late_by'] = round(time.time() - t0 - sig['at'], 2)     # how late this task was allowed to run
            getattr(running, sig['kind'])()
            res['signal_sent'] = True
        except Exception as e:  # noqa
            res['signal_error'] = f'{type(e).__name__}: {e}'
    st = asyncio.ensure_future(send()) if sig else None
    ham = spec.get('hammer')
    yielded = [False]

    async def hammer() -> None:
        # repeated terminate / kill requests from another task for as long as awaiting the handle has not yielded -- the caller's only way
        # to know that the process is gone -- : the first one `at` s after the start, or once the child has created the file `flag`; then
        # one more (cycling through `kinds`) every `every` s (0: at every iteration of the event loop) until the await has yielded.
        # Stops at the first request that raises (a pid that is gone is never signalled twice).
        if ham.get('flag'):
            t_end = time.time() + spec.get('timeout', 20)
            while not os.path.exists(ham['flag']) and not yielded[0] and time.time() < t_end:
                await asyncio.sleep(0.005)
            res['hammer_flag_seen'] = os.path.exists(ham['flag'])
        else:
            await asyncio.sleep(ham.get('at', 0.0))
        res['hammer_started_after_s'] = round(time.time() - t0, 2)
        n = n_gone = 0
        res['hammer_requests'] = res['hammer_requests_after_reaped'] = 0
        kinds = ham['kinds']
        while not yielded[0]:
            kind = kinds[n % len(kinds)]
            popen = getattr(running.process, '_popen', None)
            gone = getattr(popen, 'returncode', None) is not None      # already reaped (looked up without polling)
            try:
                getattr(running, kind)()
            except BaseException as e:  # noqa
                res['hammer_error'] = {'request': kind, 'nth': n + 1, 'error': f'{type(e).__name__}: {e}', 'reaped_exit_code_seen_before': getattr(popen, 'returncode', None),
                                       'after_s': round(time.time() - t0, 2)}
                break
            n += 1
            n_gone += gone
            res['hammer_requests'] = n
            res['hammer_requests_after_reaped'] = n_gone
            await asyncio.sleep(ham.get('every', 0))
    ht = asyncio.ensure_future(hammer()) if ham else None
    awaiters: list = []
    stop_spawning = [False]

    async def one_awaiter() -> Any:
        return await running

    async def await_and_look() -> Any:
        ex = await running
        yielded[0] = True
        # the instant at which awaiting the handle has yielded (no suspension point in between): which tasks other than the
        # harness's own are still running, and how many of the child's log records have been handled by now
        mine = {asyncio.current_task(), st, ht, sp_task, *awaiters}
        left = [t for t in asyncio.all_tasks() - tasks_before if t not in mine and not t.done()]
        res['tasks_left_at_yield'] = sorted(_task_name(t) for t in left)
        if handler is not None:
            res['records_handled_at_yield'] = len(handler.handled)
        res['yield_after_s'] = round(time.time() - t0, 2)
        return ex

    async def spawn_awaiters() -> None:
        # a fresh awaiter of the same handle at every iteration of the event loop, before, while and after the process exits
        while not stop_spawning[0] and len(awaiters) < 20000:
            awaiters.append(asyncio.ensure_future(one_awaiter()))
            await asyncio.sleep(0)
    sp_task = asyncio.ensure_future(spawn_awaiters()) if spec.get('many_awaiters') else None
    if spec.get('cancel_first_awaiter') is not None:
        # somebody awaits the handle and gives up (a time-out around the await) while the child is still running; the handle is awaited again afterwards
        first = asyncio.ensure_future(one_awaiter())
        await asyncio.sleep(spec['cancel_first_awaiter'])
        first.cancel()
        try:
            await first
            res['first_awaiter'] = 'returned'
        except asyncio.CancelledError:
            res['first_awaiter'] = 'cancelled'
        except BaseException as e:  # noqa
            res['first_awaiter'] = f'raised {type(e).__name__}'
    try:
        ex = await asyncio.wait_for(await_and_look(), timeout=spec.get('timeout', 20))
        res['awaited'] = True
        res['returned'] = repr(ex.returned)
        res['returned_is_none'] = ex.returned is None
        res['raised'] = type(ex.raised).__name__ if ex.raised is not None else None
        res['exitcode'] = ex.process.exitcode
        res['is_alive'] = ex.process.is_alive()
        res['times_ok'] = ex.process_created_at <= ex.process_exited_at
    except asyncio.TimeoutError:
        res['awaited'] = False
        res['raised_out'] = 'Timeout'
        # where is everybody? (used to recognise known findings by their mechanism)
        import traceback
        frames = sys._current_frames()
        res['stacks_at_timeout'] = {th.name: [f'{fs.filename.split("/")[-1]}:{fs.lineno} {fs.name}' for fs in traceback.extract_stack(frames[th.ident])][-8:]
                                    for th in threading.enumerate() if th.ident in frames}
        res['tasks_at_timeout'] = sorted(_task_name(t) for t in asyncio.all_tasks() if not t.done())
    except BaseException as e:  # noqa
        res['awaited'] = False
        res['raised_out'] = f'{type(e).__name__}: {e}'
    if sp_task is not None:
        for _ in range(10):
            await asyncio.sleep(0)
        stop_spawning[0] = True
        await sp_task
        done, pending = await asyncio.wait(awaiters, timeout=10) if awaiters else (set(), set())
        errs = [f'{type(t.exception()).__name__}: {t.exception()}' for t in done if t.exception() is not None]
        res['awaiters'] = len(awaiters)
        res['awaiter_errors'] = errs[:3]
        res['awaiters_pending'] = len(pending)
        for t in pending:
            t.cancel()
    if st is not None:
        st.cancel()
    if ht is not None:
        yielded[0] = True
        try:
            await asyncio.wait_for(ht, timeout=5)
        except BaseException as e:  # noqa
            res['hammer_task_error'] = f'{type(e).__name__}: {e}'
    await asyncio.sleep(0.05)
    res['pending_tasks'] = len([t for t in asyncio.all_tasks() if t is not asyncio.current_task() and not t.done()])
    res['extra_threads'] = max(0, threading.active_count() - threads_before - 1 - len([t for t in threading.enumerate() if t.name.startswith('asyncio_')]))
    if handler is not None:
        # let a listener that was left behind finish (bounded), to report when the records were eventually handled
        n_exp = spec.get('n_records', 0)
        t_end = time.time() + 15
        while len(handler.handled) < n_exp and time.time() < t_end and res.get('tasks_left_at_yield'):
            await asyncio.sleep(0.1)
        res['records_handled_finally'] = len(handler.handled)
        res['records_finally_after_s'] = round(time.time() - t0, 2)
    res['wall_s'] = round(time.time() - t0, 2)
    return res


def main() -> None:
    import logging
    logging.disable(logging.CRITICAL) if not json.loads(sys.argv[1]).get('logging') else None
    spec = json.loads(sys.argv[1])

    def fire() -> None:
        open(sys.argv[2], 'w').write(json.dumps({'awaited': False, 'raised_out': 'Watchdog: event loop blocked'}))
        os._exit(3)
    w = threading.Timer(spec.get('timeout', 20) + 10, fire)
    w.daemon = True
    w.start()
    res = asyncio.new_event_loop().run_until_complete(amain(spec))
    open(sys.argv[2], 'w').write(json.dumps(res))
    os._exit(0)


if __name__ == '__main__':
    main()
