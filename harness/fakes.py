"""Simulated child for FSM-level scenarios (DESIGN §4.2).

The three library boundaries the session code crosses are replaced, by identity, in the harness process:
`run_in_process` (every reference to the original function object in loaded `nextline.*` modules),
`multiprocessing.get_context(...).Queue()` (an asyncio-backed queue) and `asyncio.to_thread` (awaits that
queue; delegates otherwise).  The real `RunSession.run`, `relay_events`, `Signal`, `Result`, registrars and
FSM code still execute — now without threads or processes, hence deterministically under the permuting loop.
"""
from __future__ import annotations

import asyncio
import datetime
import multiprocessing
import sys
from typing import Any, Optional


class FakesNotInstallable(Exception):
    """infrastructure problem (exit 2), never a property verdict"""


class FakeQueue:
    def __init__(self) -> None:
        self.q: asyncio.Queue = asyncio.Queue()
        self.items_put: list = []

    def empty(self) -> bool:
        return self.q.empty()

    def put(self, x: Any) -> None:
        self.items_put.append(x)
        self.q.put_nowait(x)

    def get(self) -> Any:  # only reached through to_thread → intercepted
        raise RuntimeError('FakeQueue.get() must be awaited through the patched asyncio.to_thread')


class FakeCtx:
    def Queue(self) -> FakeQueue:  # noqa: N802
        return FakeQueue()


class FakeProc:
    def __init__(self, pid: int) -> None:
        self.alive = True
        self.pid = pid
        self.exitcode: Optional[int] = None

    def is_alive(self) -> bool:
        return self.alive


class FakeChild:
    """The awaitable handle returned by the fake `run_in_process`, and the scenario's control over the child."""

    def __init__(self, world: 'World', func: Any, initializer: Any) -> None:
        self.world = world
        self.process = FakeProc(4000 + len(world.children))
        self.process_created_at = datetime.datetime.now(datetime.timezone.utc)
        self._exit = asyncio.Event()
        self.returned: Any = None
        self.run_arg = func.args[0] if getattr(func, 'args', None) else None
        qs = getattr(initializer, 'args', (None, None))
        self.queue_in: Optional[FakeQueue] = qs[0] if len(qs) > 0 else None
        self.queue_out: Optional[FakeQueue] = qs[1] if len(qs) > 1 else None
        self.signals: list[str] = []

    # -- the scenario's side
    def emit(self, event: Any) -> None:
        assert self.queue_out is not None
        self.queue_out.put(event)

    def exit(self, returned: Any = None, exitcode: int = 0) -> None:
        if not self.process.alive:
            return
        self.returned = returned
        self.process.alive = False
        self.process.exitcode = exitcode
        self._exit.set()

    def commands(self) -> list:
        return [x for x in (self.queue_in.items_put if self.queue_in else []) if x is not None]

    # -- RunningProcess interface
    def interrupt(self) -> None:
        self.signals.append('interrupt')
        self.world.on_signal(self, 'interrupt')

    def terminate(self) -> None:
        self.signals.append('terminate')
        self.world.on_signal(self, 'terminate')

    def kill(self) -> None:
        self.signals.append('kill')
        self.world.on_signal(self, 'kill')

    def __await__(self) -> Any:
        from nextline.utils import ExitedProcess
        yield from self._exit.wait().__await__()
        return ExitedProcess(returned=self.returned, raised=None, process=self.process,  # type: ignore[arg-type]
                             process_created_at=self.process_created_at,
                             process_exited_at=datetime.datetime.now(datetime.timezone.utc))


class World:
    """All fake children of one harness process."""

    def __init__(self) -> None:
        self.children: list[FakeChild] = []
        self.fail_next_start: Optional[BaseException] = None
        self.signal_exits = True      # a signal makes the fake child exit at once (like a sleeping real child)
        self.log: list = []

    def live(self) -> list[FakeChild]:
        return [c for c in self.children if c.process.alive]

    def on_signal(self, child: FakeChild, kind: str) -> None:
        self.log.append(('signal', kind))
        if self.signal_exits:
            child.exit(None, exitcode={'interrupt': 1, 'terminate': -15, 'kill': -9}[kind])


_installed: Optional[World] = None
_originals: list = []


def install() -> World:
    """Patch by identity. Idempotent per process."""
    global _installed
    if _installed is not None:
        return _installed
    import nextline  # noqa: F401
    import nextline.plugin.plugins.session.session  # noqa: F401  (make sure the session code is loaded)
    from nextline.utils import run as run_mod
    world = World()
    org_rip = run_mod.run_in_process

    async def fake_run_in_process(func: Any, mp_context: Any = None, initializer: Any = None,
                                  collect_logging: bool = False) -> FakeChild:
        await asyncio.sleep(0)                    # the real one suspends at least once
        if world.fail_next_start is not None:
            e, world.fail_next_start = world.fail_next_start, None
            raise e
        child = FakeChild(world, func, initializer)
        world.children.append(child)
        world.log.append(('child', len(world.children)))
        return child

    n_rip = 0
    for name, mod in list(sys.modules.items()):
        if not name.startswith('nextline') or mod is None:
            continue
        for attr, val in list(vars(mod).items()):
            if val is org_rip:
                setattr(mod, attr, fake_run_in_process)
                _originals.append((mod, attr, val))
                n_rip += 1
    if n_rip == 0:
        raise FakesNotInstallable('no reference to run_in_process found in nextline modules')

    org_get_context = multiprocessing.get_context

    def fake_get_context(method: Any = None) -> Any:
        return FakeCtx()
    multiprocessing.get_context = fake_get_context  # type: ignore[assignment]
    _originals.append((multiprocessing, 'get_context', org_get_context))

    org_to_thread = asyncio.to_thread

    async def fake_to_thread(fn: Any, /, *a: Any, **k: Any) -> Any:
        owner = getattr(fn, '__self__', None)
        if isinstance(owner, FakeQueue):
            if fn.__name__ == 'get':
                return await owner.q.get()
            return fn(*a, **k)
        return await org_to_thread(fn, *a, **k)
    asyncio.to_thread = fake_to_thread  # type: ignore[assignment]
    _originals.append((asyncio, 'to_thread', org_to_thread))
    _installed = world
    return world


def reset_world() -> World:
    w = install()
    w.children.clear()
    w.log.clear()
    w.fail_next_start = None
    w.signal_exits = True
    return w
