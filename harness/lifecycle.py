"""Run API-level scenarios on the real `Nextline` with the simulated child; report observations in the
format of the Lean driver `nlvmodel life` (model A)."""
from __future__ import annotations

import asyncio
import datetime
import random
from typing import Any, Optional

from . import fakes, loop as ctl


PATH_STMT = 9          # statement number 9 is a script given as a path — to a file that does not exist (the run would fail in the child)


def stmt_text(n: int) -> Any:
    if n == PATH_STMT:
        from pathlib import Path
        return Path('/nlv-no-such-dir/script.py')
    return f'x = {n}\n'


def stmt_id(text: Any) -> str:
    if isinstance(text, str) and text.startswith('x = '):
        return text[4:].strip()
    from pathlib import Path
    if isinstance(text, Path) and str(text) == '/nlv-no-such-dir/script.py':
        return str(PATH_STMT)
    return f'?{text!r}'


async def settle(n: int = 400) -> None:
    loop = asyncio.get_running_loop()
    for _ in range(n):
        await asyncio.sleep(0)
        if not loop._ready:  # type: ignore[attr-defined]
            return


class Scenario:
    """One Nextline object driven op by op."""

    def __init__(self, stmt: int = 0, run_no: int = 1, tt: bool = False, tm: bool = False) -> None:
        self.init = (stmt, run_no, tt, tm)
        self.tokens: list[str] = []
        self.pending: list[tuple[str, asyncio.Task]] = []
        self.nl: Any = None
        self.world = fakes.reset_world()
        self.world.signal_exits = False
        self.nchildren = 0
        self.ncmds: dict = {}
        self.nsig = 0
        self.prompt_no = 0
        self.trace_started: set = set()
        self.cont_task: Optional[asyncio.Task] = None
        self.state_samples: list = []

    def tok(self, t: str) -> None:
        self.tokens.append(t)

    def _wrap(self, pubsub: Any) -> None:
        if getattr(pubsub, '_nlv_wrapped', False):
            return
        sc = self
        org_publish, org_close = pubsub.publish, pubsub.close

        async def publish(key: Any, value: Any) -> None:
            if key == 'state_name':
                sc.tok(f'ps:{value}')
            elif key == 'run_no':
                sc.tok(f'prn:{value}')
            elif key == 'run_info':
                sc.tok(f'pri:{value.run_no}/{value.state}')
            elif key == 'statement':
                sc.tok(f'pst:{stmt_id(value)}')
            await org_publish(key, value)

        async def close() -> None:
            sc.tok('bc')
            await org_close()
        pubsub.publish = publish
        pubsub.close = close
        pubsub._nlv_wrapped = True

    async def setup(self) -> None:
        from nextline import Nextline
        from nextline.plugin.spec import hookimpl
        sc = self
        stmt, rn, tt, tm = self.init
        nl = Nextline(stmt_text(stmt), run_no_start_from=rn, trace_threads=tt, trace_modules=tm)
        self.nl = nl

        class Recorder:
            def _r(self, name: str, context: Any) -> None:
                sc.tok(f'hk:{name}/{nl.state}/{1 if context.run_arg is not None else 0}')

            @hookimpl
            def init(self, context: Any) -> None:
                sc._wrap(context.pubsub)

            @hookimpl
            async def on_initialize_run(self, context: Any) -> None:
                self._r('on_initialize_run', context)

            @hookimpl
            async def on_start_run(self, context: Any, event: Any) -> None:
                self._r('on_start_run', context)

            @hookimpl
            async def on_end_run(self, context: Any, event: Any) -> None:
                self._r('on_end_run', context)
                sc.end_run_seen = True

            @hookimpl
            async def on_finished(self, context: Any) -> None:
                self._r('on_finished', context)

            @hookimpl
            async def on_start_prompt(self, context: Any, event: Any) -> None:
                self._r('on_start_prompt', context)

        nl.register(Recorder())

        class Second:
            # a second plugin, registered and unregistered between (and during) runs by the operations reg2 / unreg2: while it is
            # registered it must receive exactly the hook calls the first one receives, from the next hook call on
            @hookimpl
            async def on_initialize_run(self, context: Any) -> None:
                sc.tok('h2:on_initialize_run')

            @hookimpl
            async def on_start_run(self, context: Any, event: Any) -> None:
                sc.tok('h2:on_start_run')

            @hookimpl
            async def on_end_run(self, context: Any, event: Any) -> None:
                sc.tok('h2:on_end_run')

            @hookimpl
            async def on_finished(self, context: Any) -> None:
                sc.tok('h2:on_finished')

            @hookimpl
            async def on_start_prompt(self, context: Any, event: Any) -> None:
                sc.tok('h2:on_start_prompt')
        self.second = Second()
        self.second_registered = False

        class Raiser:
            # a faulty third-party plugin: its on_end_run raises when armed (operation `exitx`)
            @hookimpl
            async def on_end_run(self, context: Any, event: Any) -> None:
                if sc.raise_in_end_run:
                    sc.raise_in_end_run = False
                    # the other implementations of this hook call run concurrently (asyncio.gather does not cancel them when one
                    # raises): let the recorder's run first, so that what it records does not depend on the failure
                    for _ in range(200):
                        if sc.end_run_seen:
                            break
                        await asyncio.sleep(0)
                    raise RuntimeError('plugin failure in on_end_run (injected by the harness)')
        self.raise_in_end_run = False
        self.end_run_seen = False
        nl.register(Raiser())
        # the broker exists from construction on; wrap it now if it can be reached, else at the `init` hook
        imp = getattr(nl, '_imp', None)
        if imp is not None and hasattr(imp, 'pubsub'):
            self._wrap(imp.pubsub)

        async def cont_sub() -> None:
            async for b in nl.subscribe_continuous_enabled():
                sc.tok(f'pc:{1 if b else 0}')
        self.cont_task = asyncio.ensure_future(cont_sub())
        self.subs: list = []
        self._subscribe('state')
        self._subscribe('trace_ids')
        # iterators handed out now but not advanced until after close(): they too must terminate
        self.lazy = {'state': nl.subscribe_state(), 'trace_ids': nl.subscribe_trace_ids(), 'run_info': nl.subscribe_run_info(),
                     'run_no': nl.subscribe_run_no(), 'continuous_enabled': nl.subscribe_continuous_enabled()}
        await settle()

    def _subscribe(self, what: str) -> None:
        nl = self.nl
        it = {'state': nl.subscribe_state, 'trace_ids': nl.subscribe_trace_ids, 'run_info': nl.subscribe_run_info,
              'run_no': nl.subscribe_run_no}[what]()

        async def consume() -> None:
            async for _ in it:
                pass
        self.subs.append(asyncio.ensure_future(consume()))

    # ---------------------------------------------------------------------------------------------
    def _collect(self) -> None:
        """tokens for what the environment saw since the last op"""
        w = self.world
        while self.nchildren < len(w.children):
            c = w.children[self.nchildren]
            ra = c.run_arg
            self.tok(f'cs:{ra.run_no}/{stmt_id(ra.statement)}/{int(bool(ra.trace_threads))}/{int(bool(ra.trace_modules))}')
            self.nchildren += 1
        sigs = [x for x in w.log if x[0] == 'signal']
        for s in sigs[self.nsig:]:
            self.tok(f'sg:{s[1]}')
        self.nsig = len(sigs)
        for i, c in enumerate(w.children):
            n = len(c.commands())
            for _ in range(n - self.ncmds.get(i, 0)):
                self.tok('cmd')
            self.ncmds[i] = n
        still = []
        for name, t in self.pending:
            if t.done():
                self.tok(f'ret:{name}:{self._res(t)}')
            else:
                still.append((name, t))
        self.pending = still

    @staticmethod
    def _res(t: asyncio.Task) -> str:
        if t.cancelled():
            return 'Cancelled'
        e = t.exception()
        return 'ok' if e is None else type(e).__name__

    async def _call(self, name: str, coro: Any) -> None:
        t = asyncio.ensure_future(coro)
        await settle()
        if t.done():
            self._collect()
            self.tok(f'ret:{name}:{self._res(t)}')
        else:
            self._collect()
            self.tok(f'blocked:{name}')
            self.pending.append((name, t))

    async def op(self, line: str) -> str:
        """Execute one protocol line; return the reply in the driver's format."""
        from nextline import events as E
        from nextline.spawned import RunResult
        self.tokens = []
        w = line.split()
        nl = self.nl
        now = datetime.datetime.utcnow
        if w[0] in ('start', 'run', 'rac', 'rcw', 'reset', 'close', 'xreset', 'xclose', 'kclose') and self.pending:
            return 'skipped'          # serial histories: no lifecycle call while another one is blocked
        if w[0] == 'start':
            await self._call('start', nl.start())
        elif w[0] == 'run':
            await self._call('run', nl.run())
        elif w[0] == 'rac':
            await self._call('run_and_continue', nl.run_and_continue())
        elif w[0] == 'rcw':
            await self._call('run_continue_and_wait', nl.run_continue_and_wait())
        elif w[0] == 'reset':
            kw: dict = {}
            if w[1] != '-':
                kw['statement'] = stmt_text(int(w[1]))
            if w[2] != '-':
                kw['run_no_start_from'] = int(w[2])
            if w[3] != '-':
                kw['trace_threads'] = w[3] == '1'
            if w[4] != '-':
                kw['trace_modules'] = w[4] == '1'
            await self._call('reset', nl.reset(**kw))
        elif w[0] == 'close':
            await self._call('close', nl.close())
        elif w[0] == 'sig':
            await self._call(w[1], getattr(nl, w[1])())
        elif w[0] == 'cmd':
            await self._call('send_pdb_command', nl.send_pdb_command('next', 1, 1))
        elif w[0] in ('prompt', 'pexit'):
            live = self.world.live()
            if live:
                c = live[-1]
                rn = c.run_arg.run_no
                idx = self.world.children.index(c)
                if idx not in self.trace_started:
                    self.trace_started.add(idx)
                    c.emit(E.OnStartTrace(started_at=now(), run_no=rn, trace_no=1, thread_no=1, task_no=None))
                self.prompt_no += 1
                p = self.prompt_no
                c.emit(E.OnStartTraceCall(started_at=now(), run_no=rn, trace_no=1, trace_call_no=p, file_name='<string>',
                                          line_no=1, frame_object_id=1, event='line'))
                c.emit(E.OnStartCmdloop(started_at=now(), run_no=rn, trace_no=1, trace_call_no=p))
                c.emit(E.OnStartPrompt(started_at=now(), run_no=rn, trace_no=1, trace_call_no=p, prompt_no=p,
                                       prompt_text='(Pdb) ', file_name='<string>', line_no=1, frame_object_id=1, event='line'))
                if w[0] == 'pexit':      # exit at once: the events are still in the channel
                    if w[1] == '-':
                        c.exit(None, exitcode=-9)
                    else:
                        c.exit(RunResult(ret=int(w[1])), exitcode=0)
            await settle()
            self._collect()
        elif w[0] == 'reg2':
            if not self.second_registered:
                name = nl.register(self.second)
                self.second_registered = True
                self.tok('r2:registered' if name is not None else 'r2:REFUSED')
            await settle()
            self._collect()
        elif w[0] == 'unreg2':
            if self.second_registered:
                got = nl.unregister(self.second)
                self.second_registered = False
                self.tok('r2:unregistered' if got is not None else 'r2:NOT-FOUND')
            await settle()
            self._collect()
        elif w[0] == 'kclose':
            # the child exits; k scheduler steps later — anywhere between the process's exit and the end of the `finish`
            # transition — a fresh task calls close().  What close() does must not depend on k.
            live = self.world.live()
            if live:
                c = live[-1]
                k = int(w[2])

                async def closer() -> Any:
                    for _ in range(k):
                        await asyncio.sleep(0)
                    return await nl.close()
                wt = asyncio.ensure_future(closer())
                if w[1] == '-':
                    c.exit(None, exitcode=-9)
                else:
                    c.exit(RunResult(ret=int(w[1])), exitcode=0)
                await settle()
                self._collect()
                if wt.done():
                    self.tok(f'ret:close:{self._res(wt)}')
                else:
                    self.tok('blocked:close')
                    self.pending.append(('close', wt))
            else:
                await settle()
                self._collect()
        elif w[0] in ('xreset', 'xclose'):
            # the child exits; a caller that watches the state attribute calls reset()/close() the moment it reads
            # 'finished' — the `finish` transition may still be suspended in its hooks
            live = self.world.live()
            if live:
                c = live[-1]

                async def watcher() -> Any:
                    for _ in range(2000):
                        if nl.state == 'finished':
                            break
                        await asyncio.sleep(0)
                    else:
                        return 'never-finished'
                    if w[0] == 'xreset':
                        return await nl.reset()
                    return await nl.close()
                name = 'reset' if w[0] == 'xreset' else 'close'
                wt = asyncio.ensure_future(watcher())
                if w[1] == '-':
                    c.exit(None, exitcode=-9)
                else:
                    c.exit(RunResult(ret=int(w[1])), exitcode=0)
                await settle()
                self._collect()
                if wt.done():
                    self.tok(f'ret:{name}:{self._res(wt)}')
                else:
                    self.tok(f'blocked:{name}')
                    self.pending.append((name, wt))
            else:
                await settle()
                self._collect()
        elif w[0] == 'exitx':
            # the child exits and a plugin's on_end_run raises: the run must still be finished and its arguments withdrawn
            live = self.world.live()
            if live:
                self.raise_in_end_run = True
                self.end_run_seen = False
                c = live[-1]
                if w[1] == '-':
                    c.exit(None, exitcode=-9)
                else:
                    c.exit(RunResult(ret=int(w[1])), exitcode=0)
            await settle()
            self._collect()
        elif w[0] == 'exit':
            live = self.world.live()
            if live:
                c = live[-1]
                if w[1] == '+':
                    c.exit(None, exitcode=3)          # os._exit(3): a hard exit with a positive exit status
                elif w[1] == '-':
                    c.exit(None, exitcode=-9)
                else:
                    c.exit(RunResult(ret=int(w[1])), exitcode=0)
            await settle()
            self._collect()
        else:
            raise ValueError(line)
        await settle()
        self._collect()
        try:
            ce = '1' if nl.continuous_enabled else '0'
        except LookupError:
            ce = 'E'
        if w[0] == 'start':
            self._subscribe('run_info')
            self._subscribe('run_no')
            await settle()
        try:
            r = nl.result()
            rs = '-' if r is None else str(r)
        except BaseException as e:  # noqa
            rs = f'!{type(e).__name__}'
        try:
            fe = nl.format_exception()
            fe = 'N' if fe is None else ('E' if fe == '' else 'X')
        except BaseException as e:  # noqa
            fe = f'!{type(e).__name__}'
        lc = len(self.world.live())
        sd = sum(1 for t in self.subs if t.done())
        return ' '.join(self.tokens + [f'st={nl.state}', f'ce={ce}', f'rs={rs}', f'fe={fe}', f'lc={lc}', f'sd={sd}/{len(self.subs)}'])

    async def teardown(self) -> dict:
        """Leave nothing running; report what was still blocked."""
        info = {'blocked_at_end': [n for n, _ in self.pending], 'live_children': len(self.world.live())}
        for c in self.world.live():
            c.exit(None, exitcode=-9)
        await settle()
        try:
            await asyncio.wait_for(self.nl.close(), timeout=5)
        except BaseException as e:  # noqa
            info['close_error'] = f'{type(e).__name__}: {e}'
        await settle()
        for _, t in self.pending:
            t.cancel()
        info['subscribers_done_after_close'] = [t.done() for t in self.subs]
        if self.nl.state == 'closed':
            async def drain(it: Any) -> None:
                async for _ in it:
                    pass
            lazy_tasks = {k: asyncio.ensure_future(drain(it)) for k, it in self.lazy.items()}
            await settle()
            info['lazy_not_terminated'] = sorted(k for k, t in lazy_tasks.items() if not t.done())
            for t in lazy_tasks.values():
                t.cancel()
        for t in self.subs:
            t.cancel()
        if self.cont_task is not None:
            info['cont_subscriber_done'] = self.cont_task.done()
            self.cont_task.cancel()
        await settle()
        return info


def run_scenario(init: tuple, lines: list[str], chooser: Any = None) -> tuple[list[str], dict]:
    async def main() -> tuple[list[str], dict]:
        sc = Scenario(*init)
        await sc.setup()
        out = []
        for ln in lines:
            out.append(await sc.op(ln))
        info = await sc.teardown()
        return out, info
    fakes.install()
    return ctl.run(main, chooser or ctl.Fifo())


def group(reply: str) -> dict:
    """per-kind sequences of a reply (cross-kind order is not compared)"""
    g: dict = {}
    for tok in reply.split():
        if tok[2:3] == '=' and tok[:2] in ('st', 'ce', 'lc', 'sd', 'rs', 'fe'):
            g[tok[:2]] = [tok[3:]]
            continue
        k = tok.split(':', 1)[0]
        g.setdefault(k, []).append(tok)
    return g
