"""In-process execution of the child's trace machinery (`nextline.spawned.run`) with plain queues and a responder
thread, next to (a) an untraced reference execution and (b) an independent sys.settrace recorder (DESIGN §4.5).

Run in a worker process:  run_batch(specs) → list of records.
"""
from __future__ import annotations

import asyncio
import contextlib
import dataclasses
import io
import logging
import os
import queue
import random
import sys
import threading
import traceback
from pathlib import Path
from typing import Any, Optional


def _mod() -> str:
    from nextline.spawned.plugin.plugins import _script
    return _script.__name__


def _clean_event(ev: Any) -> dict:
    d = {'_type': type(ev).__name__}
    for f in dataclasses.fields(ev):
        if f.name.endswith('_at'):
            continue
        v = getattr(ev, f.name)
        d[f.name] = v if isinstance(v, (str, int, float, bool, type(None))) else repr(v)
    return d


def entity_key() -> str:
    try:
        t = asyncio.current_task()
    except RuntimeError:
        t = None
    th = threading.current_thread()
    return f'{th.name}' if t is None else f'{th.name}/{t.get_name()}'


class _Tee(io.TextIOBase):
    """stdout replacement that records (entity, text) of every write"""

    def __init__(self) -> None:
        self.writes: list = []
        self._lock = threading.Lock()

    def write(self, s: str) -> int:  # type: ignore[override]
        with self._lock:
            self.writes.append((entity_key(), s))
        return len(s)

    def flush(self) -> None:
        pass

    def text(self) -> str:
        return ''.join(s for _, s in self.writes)


def _exc_summary(e: Optional[BaseException]) -> Optional[dict]:
    if e is None:
        return None
    frames = [(f.filename, f.lineno, f.name) for f in traceback.extract_tb(e.__traceback__)]
    return {'type': type(e).__name__, 'str': str(e), 'frames': frames}


def make_statement(spec: dict) -> Any:
    src = spec['source']
    kind = spec.get('statement_kind', 'str')
    if kind == 'str':
        return src
    if kind == 'code':
        return compile(src, '<string>', 'exec', dont_inherit=True)
    if kind == 'path':
        p = Path(spec['tmpdir']) / f"script_{abs(hash(src)) % 10**8}.py"
        p.write_text(src)
        return p
    if kind == 'callable':
        g: dict = {'__name__': '__nlv_callable__'}
        exec(compile(src + '\n', '<callable>', 'exec', dont_inherit=True), g)
        return g['main']
    raise ValueError(kind)


def _join_new_threads(before: set, timeout: float = 5.0) -> None:
    # (threads started by the simulated main thread inherit its daemon flag; in a real process they would not be daemons)
    for t in set(threading.enumerate()) - before:
        if t is not threading.current_thread() and not t.name.startswith('nlv-') and not isinstance(t, threading._DummyThread):
            try:
                t.join(timeout)
            except RuntimeError:      # a thread still being started (enumerate() lists those too)
                pass


def reference(spec: dict) -> dict:
    """untraced execution in the same kind of fresh globals the runner uses"""
    tee = _Tee()
    old = sys.stdout
    exc: Optional[BaseException] = None
    ret = None
    kind = spec.get('statement_kind', 'str')
    sys.stdout = tee
    before = set(threading.enumerate())
    try:
        if kind == 'callable':
            ret = make_statement(spec)()
        else:
            fname = '<string>'
            src = spec['source']
            if kind == 'path':
                fname = str(make_statement(spec))
            exec(compile(src, fname, 'exec', dont_inherit=True), {'__name__': _mod()})
    except BaseException as e:  # noqa
        exc = e
    finally:
        _join_new_threads(before)       # a process running the script would wait for the threads it left behind
        sys.stdout = old
    return {'stdout': tee.text(), 'writes': tee.writes, 'exc': _exc_summary(exc), 'ret': ret if isinstance(ret, (int, str, float, bool, type(None), list)) else repr(ret)}


_GEN_FLAGS = 0x20 | 0x80 | 0x200      # CO_GENERATOR | CO_COROUTINE | CO_ASYNC_GENERATOR


def recorder(spec: dict, all_modules: bool = False) -> dict:
    """independent sys.settrace/threading.settrace recorder: every call/line/return/exception per entity.

    `events`: per entity the 5-tuples (file, line, event, function, module) — unchanged.
    `stream`: per entity the interpreter-level stream model D2 consumes: a list of records
        ['f', fid, parent fid or None, is generator/coroutine (0/1), module, function]    (frame table entry, new or changed f_back)
        ['e', fid, line, event, exception kind, deepest traceback frame fid or None]
      frame ids are small ints in order of first appearance (all frame objects are kept alive during the run, so `id(frame)` is
      never reused); exception kind: 0 none/other, 1 StopIteration without traceback, 2 StopIteration with traceback, 3 GeneratorExit.
      The frame table is refreshed (whole f_back chain) at every 'call' event, and for the deepest traceback frame of an exception.
      When a recorded frame is entered from a frame that is not recorded (library code, or the script's caller), the caller's
      `f_trace` is set as well, so that its later line/return/exception events are in the stream (bdb's `set_step` does the same
      to that frame, and model D2 needs to see what reaches Pdb through that route).
    `order`: entity keys in order of first appearance.
    """
    import gc
    gc.collect()
    rec: dict = {}
    stream: dict = {}
    order: list = []
    fids: dict = {}
    keep: list = []
    known: dict = {}
    lock = threading.Lock()
    mod = _mod()
    here = __name__

    def fid_of(frame: Any) -> int:
        k = id(frame)
        if k not in fids:
            fids[k] = len(fids)
            keep.append(frame)
        return fids[k]

    def table(frame: Any, out: list) -> None:
        """emit frame-table entries for `frame` and its f_back chain where new or changed"""
        depth = 0
        while frame is not None and depth < 200:
            i = fid_of(frame)
            back = frame.f_back
            p = None if back is None else fid_of(back)
            ent = (p, 1 if frame.f_code.co_flags & _GEN_FLAGS else 0)
            if known.get(i) == ent:
                break
            known[i] = ent
            out.append(['f', i, p, ent[1], frame.f_globals.get('__name__'), frame.f_code.co_name])
            frame = back
            depth += 1

    def exc_kind(arg: Any) -> int:
        try:
            if arg[0] is StopIteration:
                return 1 if arg[2] is None else 2
            if arg[0] is GeneratorExit:
                return 3
        except Exception:  # noqa
            pass
        return 0

    def note(frame: Any, event: str, arg: Any, name: Any) -> None:
        with lock:
            key = entity_key()
            if key not in stream:
                stream[key] = []
                order.append(key)
            st = stream[key]
            deep = None
            if event == 'call':
                table(frame, st)
            elif event == 'exception':
                tb = arg[2]
                last = None
                while tb is not None:
                    last = tb.tb_frame
                    tb = tb.tb_next
                if last is not None and last is not frame:
                    table(last, st)
                    deep = fid_of(last)
            i = fid_of(frame)
            if i not in known:
                table(frame, st)
            st.append(['e', i, frame.f_lineno, event, exc_kind(arg) if event == 'exception' else 0, deep])
            rec.setdefault(key, []).append((frame.f_code.co_filename, frame.f_lineno, event, frame.f_code.co_name, name))

    def tr_caller(frame: Any, event: str, arg: Any) -> Any:
        # local trace function of an otherwise unrecorded caller of a recorded frame
        if event in ('line', 'return', 'exception'):
            note(frame, event, arg, frame.f_globals.get('__name__'))
        return tr_caller

    def tr(frame: Any, event: str, arg: Any) -> Any:
        name = frame.f_globals.get('__name__')
        if not all_modules and name != mod and name != '__nlv_callable__':
            return None
        if event in ('call', 'line', 'return', 'exception'):
            if event == 'call':
                back = frame.f_back
                if back is not None and back.f_trace is None and back.f_globals.get('__name__') != here:
                    back.f_trace = tr_caller
            note(frame, event, arg, name)
        return tr
    tee = _Tee()
    old = sys.stdout
    sys.stdout = tee
    kind = spec.get('statement_kind', 'str')
    before_threads = set(threading.enumerate())
    try:
        threading.settrace(tr)
        sys.settrace(tr)
        try:
            if kind == 'callable':
                make_statement(spec)()
            else:
                fname = '<string>' if kind != 'path' else str(make_statement(spec))
                exec(compile(spec['source'], fname, 'exec', dont_inherit=True), {'__name__': mod})
        except BaseException:  # noqa
            pass
    finally:
        sys.settrace(None)                        # this thread is no longer recorded: the wait below is not the script's
        _join_new_threads(before_threads)
        threading.settrace(None)  # type: ignore[arg-type]
        sys.stdout = old
    for fr in keep:
        try:
            if fr.f_trace is tr_caller:
                fr.f_trace = None
        except Exception:  # noqa
            pass
    keep.clear()
    return {'events': rec, 'stream': stream, 'order': order}


def traced(spec: dict) -> dict:
    import gc
    from nextline import events as E
    # garbage of earlier runs (a `_Tee` held by an exception's traceback cycle, …) must not be finalised inside the traced region:
    # `IOBase.__del__` calls the Python-level `flush`, which module tracing would take for the first traced module
    gc.collect()
    from nextline.spawned import PdbCommand, RunArg, run
    qi: Any = queue.Queue()
    qo: Any = queue.Queue()
    out: list = []
    policy = spec.get('policy', {'kind': 'all', 'command': 'continue'})
    rng = random.Random(policy.get('seed', 0))
    per_trace: dict = {}
    sent: list = []
    nprompts = [0]

    def choose(ev: Any, policy: dict = policy) -> Optional[str]:
        k = policy['kind']
        if k == 'all':
            return policy['command']
        if k == 'random':
            return rng.choice(policy['choices'])
        if k == 'seq':
            i = per_trace.get(ev.trace_no, 0)
            per_trace[ev.trace_no] = i + 1
            seq = policy['commands']
            return seq[i] if i < len(seq) else policy.get('then', 'continue')
        if k == 'by_trace':
            # one policy for the first trace (the main thread), another for all other traces
            return choose(ev, policy['main'] if ev.trace_no == 1 else policy['others'])
        raise ValueError(k)

    withheld: dict = {'trace': None, 'event': None, 'released_at': None, 'thread_traces': {}}
    live_traces: set = set()

    def release() -> None:
        ev = withheld['event']
        if ev is not None and withheld['released_at'] is None:
            withheld['released_at'] = len(out)
            qi.put(PdbCommand(trace_no=ev.trace_no, prompt_no=ev.prompt_no, command=policy.get('command', 'next')))
            sent.append((ev.trace_no, ev.prompt_no, policy.get('command', 'next')))

    def responder() -> None:
        import time as _time
        while True:
            try:
                ev = qo.get(timeout=0.6 if policy['kind'] == 'withhold' else 0.25)
            except queue.Empty:
                release()          # nothing has happened for a while: everything that can progress has progressed
                continue
            if ev is None:
                break
            out.append(ev)
            if isinstance(ev, E.OnStartTrace):
                live_traces.add(ev.trace_no)
            if isinstance(ev, E.OnEndTrace):
                live_traces.discard(ev.trace_no)
            if isinstance(ev, E.OnStartTrace) and ev.task_no is None and ev.thread_no >= 2:
                withheld['thread_traces'][ev.trace_no] = len(out)
            if isinstance(ev, E.OnStartPrompt):
                nprompts[0] += 1
                if policy['kind'] == 'withhold':
                    tts = sorted(withheld['thread_traces'])
                    if withheld['trace'] is None and tts and ev.trace_no == tts[0]:
                        withheld['trace'] = ev.trace_no
                        withheld['event'] = ev
                        continue      # no answer for now
                    qi.put(PdbCommand(trace_no=ev.trace_no, prompt_no=ev.prompt_no, command=policy.get('command', 'next')))
                    sent.append((ev.trace_no, ev.prompt_no, policy.get('command', 'next')))
                    continue
                cmd = choose(ev)
                if spec.get('decoys'):
                    qi.put(PdbCommand(trace_no=ev.trace_no, prompt_no=ev.prompt_no - 1, command='p "DECOY-stale"'))
                    qi.put(PdbCommand(trace_no=99, prompt_no=ev.prompt_no, command='p "DECOY-unknown"'))
                    qi.put(PdbCommand(trace_no=ev.trace_no, prompt_no=ev.prompt_no + 500, command='p "DECOY-future"'))
                    for other in sorted(live_traces - {ev.trace_no}):
                        qi.put(PdbCommand(trace_no=other, prompt_no=ev.prompt_no, command='p "DECOY-other-trace"'))
                if spec.get('nonresuming_first') and nprompts[0] % 3 == 1:
                    # a command that does not resume: Pdb prints and prompts again in the same command loop
                    qi.put(PdbCommand(trace_no=ev.trace_no, prompt_no=ev.prompt_no, command='p 1 + 1'))
                    sent.append((ev.trace_no, ev.prompt_no, 'p 1 + 1'))
                    continue
                qi.put(PdbCommand(trace_no=ev.trace_no, prompt_no=ev.prompt_no, command=cmd))
                sent.append((ev.trace_no, ev.prompt_no, cmd))
    t = threading.Thread(target=responder, name='nlv-responder')
    t.start()
    tee = _Tee()
    old = sys.stdout
    sys.stdout = tee
    err = None
    r = None
    before_threads = set(threading.enumerate())
    swi = sys.getswitchinterval()
    if spec.get('switchinterval'):
        sys.setswitchinterval(spec['switchinterval'])      # thread switches at (almost) every bytecode boundary
    rc_dir = None
    saved_env = (os.getcwd(), os.environ.get('HOME'))
    if spec.get('pdbrc') is not None:
        # the user's own debugger start-up files (~/.pdbrc, ./.pdbrc) in the child's home and working directory: they are the user's settings for
        # the command-line pdb, not commands for Nextline's per-thread/per-task instances
        import tempfile
        rc_dir = tempfile.TemporaryDirectory(prefix='nlv-pdbrc-')
        with open(os.path.join(rc_dir.name, '.pdbrc'), 'w') as fh:
            fh.write(spec['pdbrc'])
        os.chdir(rc_dir.name)
        os.environ['HOME'] = rc_dir.name
    try:
        r = run(RunArg(run_no=spec.get('run_no', 1), statement=make_statement(spec), filename='<string>',
                       trace_threads=spec.get('trace_threads', True), trace_modules=spec.get('trace_modules', False)), qi, qo)
    except BaseException as e:  # noqa
        err = f'{type(e).__name__}: {e}'
    finally:
        sys.setswitchinterval(swi)
        if rc_dir is not None:
            os.chdir(saved_env[0])
            if saved_env[1] is None:
                os.environ.pop('HOME', None)
            else:
                os.environ['HOME'] = saved_env[1]
            rc_dir.cleanup()
        # threads the script left behind that are not traced (thread tracing off): the child process would wait for them at exit,
        # and what they print still goes to its standard output
        _join_new_threads(before_threads)
        sys.stdout = old
        qo.put(None)
        t.join(10)
    return {'events': [_clean_event(e) for e in out], 'ret': None if r is None else (r.ret if isinstance(r.ret, (int, str, float, bool, type(None), list)) else repr(r.ret)),
            'fmt_exc': None if r is None else r.fmt_exc, 'stdout': tee.text(), 'writes': tee.writes, 'error': err, 'sent': sent,
            'withheld': {'trace': withheld['trace'], 'released_at': withheld['released_at']}}


def run_one(spec: dict) -> dict:
    logging.disable(logging.CRITICAL)
    res: dict = {'spec': {k: v for k, v in spec.items() if k != 'tmpdir'}}
    try:
        if spec.get('want_reference', True):
            res['reference'] = reference(spec)
        if spec.get('want_recorder', True):
            res['recorder'] = recorder(spec, all_modules=spec.get('trace_modules', False))
        res['traced'] = traced(spec)
    except BaseException as e:  # noqa
        res['harness_error'] = f'{type(e).__name__}: {e} {traceback.format_exc()[-600:]}'
    return res


def run_batch(specs: list[dict]) -> list[dict]:
    import tempfile
    import shutil
    tmp = tempfile.mkdtemp(prefix='nlv-inproc-')
    if os.environ.get('NLV_INPROC_DUMP'):
        # debugging aid: where is everybody if a batch gets wedged?  (stacks of all threads, every N seconds, to a file)
        import faulthandler
        faulthandler.dump_traceback_later(float(os.environ['NLV_INPROC_DUMP']), repeat=False,
                                          file=open(f"/tmp/nlv-inproc-stacks-{os.getpid()}.txt", 'w'))
    try:
        out = []
        for s in specs:
            s = dict(s, tmpdir=tmp)
            done: list = []
            before = set(threading.enumerate())

            def work() -> None:
                done.append(run_one(s))
            th = threading.Thread(target=work, name='MainThread-sim', daemon=True)
            th.start()
            th.join(s.get('timeout', 20))
            if done:
                out.append(done[0])
                # a program that raised in its main thread leaves its worker threads behind: let them end before the next program
                # starts (in a real run every program has a process of its own)
                for t in set(threading.enumerate()) - before:
                    if t is not threading.current_thread() and not t.name.startswith(('nlv-', 'MainThread-sim')) \
                            and not isinstance(t, threading._DummyThread):
                        try:
                            t.join(5)
                        except RuntimeError:
                            pass
            else:
                out.append({'spec': {k: v for k, v in s.items() if k != 'tmpdir'}, 'harness_error': 'TIMEOUT: the traced run did not finish'})
                break      # the process is wedged (sys.settrace state); the caller restarts the batch remainder
        return out
    finally:
        shutil.rmtree(tmp, ignore_errors=True)
