"""Permuting asyncio event loop (DESIGN §4.1).

`_run_once` is re-implemented so that, after timers and I/O have been collected, exactly ONE
live handle of the ready queue is run, picked by a chooser.  Every handle is a task step, a
wake-up or a future callback, so this enumerates interleavings at the granularity asyncio has.
Time is virtual: when nothing is ready the clock jumps to the next timer.
"""
from __future__ import annotations

import asyncio
import heapq
import random
from typing import Any, Callable, Optional, Sequence


class Chooser:
    def __call__(self, n: int) -> int:  # pick an index in range(n), n >= 2
        raise NotImplementedError


class Fifo(Chooser):
    def __call__(self, n: int) -> int:
        return 0


class Rand(Chooser):
    def __init__(self, rng: random.Random, bias_fifo: float = 0.0):
        self.rng = rng
        self.bias = bias_fifo
        self.trace: list[int] = []

    def __call__(self, n: int) -> int:
        i = 0 if self.rng.random() < self.bias else self.rng.randrange(n)
        self.trace.append(i)
        return i


class Replay(Chooser):
    def __init__(self, trace: Sequence[int]):
        self.t = list(trace)
        self.i = 0
        self.trace: list[int] = []

    def __call__(self, n: int) -> int:
        c = self.t[self.i] if self.i < len(self.t) else 0
        self.i += 1
        c = min(c, n - 1)
        self.trace.append(c)
        return c


class Dfs(Chooser):
    """Depth-first enumeration of all choice sequences: call `next_run()` until it returns False."""

    def __init__(self) -> None:
        self.stack: list[list[int]] = []   # [chosen, n] per choice point of the previous run
        self.pos = 0
        self.trace: list[int] = []

    def __call__(self, n: int) -> int:
        if self.pos < len(self.stack):
            c = self.stack[self.pos][0]
            self.stack[self.pos][1] = n
            c = min(c, n - 1)
        else:
            c = 0
            self.stack.append([0, n])
        self.pos += 1
        self.trace.append(c)
        return c

    def next_run(self) -> bool:
        del self.stack[self.pos:]
        while self.stack and self.stack[-1][0] + 1 >= self.stack[-1][1]:
            self.stack.pop()
        if not self.stack:
            return False
        self.stack[-1][0] += 1
        self.pos = 0
        self.trace = []
        return True


class StepBudgetExceeded(BaseException):
    """The scenario did not become quiescent within the step budget (a busy loop or livelock)."""


class Deadlock(StepBudgetExceeded):
    """No runnable handle, no timer, no I/O for a while: the main coroutine can never complete."""


class CtlLoop(asyncio.SelectorEventLoop):
    max_steps = 200_000
    idle_limit_s = 3.0            # real seconds of complete idleness tolerated (worker threads may still wake the loop up)
    _idle_since: Optional[float] = None

    def __init__(self, chooser: Callable[[int], int], on_step: Optional[Callable[[], None]] = None):
        super().__init__()
        self._chooser = chooser
        self._on_step = on_step
        self._vtime = 0.0
        self.steps = 0

    def time(self) -> float:
        return self._vtime

    def _run_once(self) -> None:
        while self._scheduled and self._scheduled[0]._cancelled:
            self._timer_cancelled_count -= 1
            h = heapq.heappop(self._scheduled)
            h._scheduled = False
        live_ready = [h for h in self._ready if not h._cancelled]
        timeout: Optional[float] = None
        if live_ready or self._stopping:
            timeout = 0
        elif self._scheduled:
            # virtual time: jump to the next timer (but poll I/O first)
            timeout = 0
        else:
            timeout = 0.05          # nothing to do at all: never block for good (see the idle limit below)
        event_list = self._selector.select(timeout)
        self._process_events(event_list)
        if not [h for h in self._ready if not h._cancelled] and self._scheduled and not event_list:
            # nothing ready: is a thread (to_thread / executor) possibly about to wake us up?
            import threading
            if threading.active_count() > 1 and getattr(self, 'real_threads', False):
                for _ in range(200):      # give worker threads up to 0.2 s of real time before jumping the clock
                    event_list = self._selector.select(0.001)
                    self._process_events(event_list)
                    if self._ready or threading.active_count() <= 1:
                        break
            if not [h for h in self._ready if not h._cancelled]:
                self._vtime = max(self._vtime, self._scheduled[0]._when)
        end_time = self.time() + self._clock_resolution
        while self._scheduled:
            h = self._scheduled[0]
            if h._when >= end_time:
                break
            h = heapq.heappop(self._scheduled)
            h._scheduled = False
            self._ready.append(h)
        live = [h for h in self._ready if not h._cancelled]
        self._ready.clear()
        self._ready.extend(live)
        if not live:
            if not self._scheduled:
                # nothing to do at all: block on I/O (threads may call call_soon_threadsafe)
                import time as _time
                event_list = self._selector.select(0.05)
                self._process_events(event_list)
                if event_list or self._ready:
                    self._idle_since = None
                else:
                    now = _time.monotonic()
                    if self._idle_since is None:
                        self._idle_since = now
                    limit = self.idle_limit_s * (10 if getattr(self, 'real_threads', False) else 1)
                    if now - self._idle_since > limit and not self._stopping:
                        raise Deadlock(f'deadlock: no runnable handle, no timer and no I/O for {limit:.0f} s after {self.steps} scheduler steps')
            return
        self._idle_since = None
        i = self._chooser(len(live)) if len(live) > 1 else 0
        h = live[i]
        del self._ready[i]
        self.steps += 1
        if self.steps > self.max_steps:
            raise StepBudgetExceeded(f'no quiescence after {self.max_steps} scheduler steps')
        h._run()
        if self._on_step is not None:
            self._on_step()


def run(coro_fn: Callable[[], Any], chooser: Callable[[int], int],
        on_step: Optional[Callable[[], None]] = None, real_threads: bool = False) -> Any:
    loop = CtlLoop(chooser, on_step)
    loop.real_threads = real_threads   # worker threads (to_thread) may complete: do not jump the clock past them
    asyncio.set_event_loop(loop)
    try:
        return loop.run_until_complete(coro_fn())
    finally:
        try:
            if loop.steps <= loop.max_steps:
                loop.run_until_complete(loop.shutdown_asyncgens())
        except BaseException:
            pass
        asyncio.set_event_loop(None)
        loop.close()
