"""Child-side probe (DESIGN §4.3).  Active only in spawned children of a process started with NLV_PROBE=<dir>.

* logs every event put on the outgoing queue to <dir>/probe-<pid>.jsonl (the emitted event stream);
* optionally arms faulthandler to dump all thread stacks after NLV_PROBE_DUMP_AFTER seconds.
"""
import os
import sys

_dir = os.environ.get('NLV_PROBE')
if _dir and '--multiprocessing-fork' in sys.argv:
    try:
        _after = os.environ.get('NLV_PROBE_DUMP_AFTER')
        if _after:
            import faulthandler
            _f = open(os.path.join(_dir, f'childstacks-{os.getpid()}.txt'), 'w')
            faulthandler.dump_traceback_later(float(_after), repeat=False, file=_f, exit=False)
        if os.environ.get('NLV_SWITCHINTERVAL'):
            sys.setswitchinterval(float(os.environ['NLV_SWITCHINTERVAL']))

        import dataclasses
        import json
        import threading

        import nextline.spawned as _sp

        _org_set_queues = _sp.set_queues
        _lock = threading.Lock()

        class _QueueOut:
            def __init__(self, q):
                self._q = q
                self._log = open(os.path.join(_dir, f'probe-{os.getpid()}.jsonl'), 'a')

            def put(self, ev, *a, **k):
                try:
                    d = {'_type': type(ev).__name__}
                    if dataclasses.is_dataclass(ev):
                        for f in dataclasses.fields(ev):
                            if f.name.endswith('_at') or f.name == 'frame_object_id':
                                continue
                            v = getattr(ev, f.name)
                            d[f.name] = v if isinstance(v, (str, int, float, bool, type(None))) else repr(v)
                    with _lock:
                        self._log.write(json.dumps(d) + '\n')
                        self._log.flush()
                except Exception:
                    pass
                return self._q.put(ev, *a, **k)

            def __getattr__(self, name):
                return getattr(self._q, name)

        def set_queues(queue_in, queue_out):
            _org_set_queues(queue_in, _QueueOut(queue_out))

        if not os.environ.get('NLV_PROBE_NOLOG'):
            _sp.set_queues = set_queues
    except Exception as _e:  # never break the child
        try:
            open(os.path.join(_dir, f'probe-error-{os.getpid()}.txt'), 'w').write(repr(_e))
        except Exception:
            pass
