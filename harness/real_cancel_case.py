"""One real scenario for C03: the task that called run() is cancelled while the run is starting (the child process is being spawned),
then close() is called from another task.  Usage: python -m harness.real_cancel_case '<json spec>' <out.json>

spec: {'n_yields': k}  — the caller is cancelled k event-loop turns after the task of the run has begun to set the run up (a plugin's
`run` hook tells when), i.e. while the caller is suspended inside the 'run' transition."""
from __future__ import annotations

import asyncio
import contextlib
import json
import multiprocessing as mp
import os
import sys
import threading
import time

SCRIPT = 'x = 1\ny = 2\n'
CLOSE_TIMEOUT = 20.0


def live_children() -> list:
    return [p for p in mp.active_children() if p.is_alive()]


async def scenario(spec: dict) -> dict:
    from nextline import Nextline
    from nextline.plugin.spec import hookimpl

    class AnswerContinue:
        @hookimpl
        async def on_start_prompt(self, context, event) -> None:  # type: ignore
            await context.nextline.send_pdb_command(command='continue', prompt_no=event.prompt_no, trace_no=event.trace_no)

    class RunEntered:
        def __init__(self) -> None:
            self.entered = asyncio.Event()

        @hookimpl
        @contextlib.asynccontextmanager
        async def run(self, context):  # type: ignore
            self.entered.set()
            yield
    out: dict = {'spec': spec}
    nl = Nextline(SCRIPT, timeout_on_exit=CLOSE_TIMEOUT)
    nl.register(AnswerContinue())
    sync = RunEntered()
    nl.register(sync)
    await nl.start()
    task_a = asyncio.create_task(nl.run())
    await asyncio.wait_for(sync.entered.wait(), timeout=30)
    for _ in range(spec['n_yields']):
        await asyncio.sleep(0)
    out['in_flight_when_cancelled'] = not task_a.done()
    task_a.cancel()
    try:
        await task_a
        out['caller'] = 'returned'
    except asyncio.CancelledError:
        out['caller'] = 'cancelled'
    except BaseException as e:  # noqa
        out['caller'] = f'raised {type(e).__name__}'
    out['state_after_cancel'] = nl.state
    t0 = time.perf_counter()
    try:
        await asyncio.wait_for(nl.close(), timeout=CLOSE_TIMEOUT)
        out['close'] = 'returned'
    except asyncio.TimeoutError:
        out['close'] = f'did not return within {CLOSE_TIMEOUT} s'
    except BaseException as e:  # noqa
        out['close'] = f'raised {type(e).__name__}: {e}'
    out['close_s'] = round(time.perf_counter() - t0, 2)
    out['state_after_close'] = nl.state
    if out['close'] == 'returned':
        await asyncio.sleep(0.5)
        out['children_alive_after_close'] = len(live_children())
        try:
            await asyncio.wait_for(nl.close(), timeout=5)
            out['second_close'] = 'returned'
        except BaseException as e:  # noqa
            out['second_close'] = f'raised {type(e).__name__}: {e}'
    return out


def main() -> None:
    spec = json.loads(sys.argv[1])
    path = sys.argv[2]
    result: dict = {'spec': spec, 'error': 'the scenario did not complete'}

    def leave() -> None:
        for p in mp.active_children():          # only our own children, by handle
            try:
                p.kill()
            except Exception:  # noqa
                pass
        with open(path, 'w') as fh:
            json.dump(result, fh)
        os._exit(0)                             # do not join threads blocked on a leaked queue
    wd = threading.Timer(80, leave)
    wd.daemon = True
    wd.start()

    async def amain() -> None:
        nonlocal result
        try:
            result = await asyncio.wait_for(scenario(spec), timeout=70)
        except BaseException as e:  # noqa
            result = {'spec': spec, 'error': f'{type(e).__name__}: {e}'}
        finally:
            for p in mp.active_children():
                try:
                    p.kill()
                except Exception:  # noqa
                    pass
    try:
        asyncio.run(amain())
    except BaseException:  # noqa
        pass
    leave()


if __name__ == '__main__':
    main()
