"""Program grammar and generator for the trace-pipeline properties (C04, C05, C06, C09).

Programs are deterministic, terminate quickly, print, may raise (caught or not), define functions, classes,
generators, lambdas, and optionally start threads and asyncio tasks whose bodies are distinct functions (so that an
event's code location identifies the thread/task that produced it).
"""
from __future__ import annotations

import random
from typing import Optional


class Gen:
    def __init__(self, rng: random.Random, max_stmts: int = 12, depth: int = 2) -> None:
        self.rng = rng
        self.budget = max_stmts
        self.depth = depth
        self.nvar = 0
        self.nfun = 0
        self.funcs: list[tuple[str, int]] = []     # (name, n_args) callable from the current scope
        self.gens: list[str] = []
        self.vars: list[str] = ['a0']

    def var(self) -> str:
        return self.rng.choice(self.vars)

    def newvar(self) -> str:
        self.nvar += 1
        v = f'v{self.nvar}'
        self.vars.append(v)
        return v

    def expr(self, d: int = 0) -> str:
        r = self.rng.random()
        if d > 1 or r < 0.35:
            return self.rng.choice([str(self.rng.randint(0, 9)), self.var()])
        if r < 0.6:
            return f'({self.expr(d + 1)} {self.rng.choice(["+", "-", "*"])} {self.expr(d + 1)})'
        if r < 0.7 and self.funcs:
            f, n = self.rng.choice(self.funcs)
            return f'{f}({", ".join(self.expr(d + 1) for _ in range(n))})'
        if r < 0.78:
            return f'(lambda q: q + {self.rng.randint(1, 3)})({self.expr(d + 1)})'
        if r < 0.85 and self.gens:
            return f'sum({self.rng.choice(self.gens)}({self.rng.randint(0, 3)}))'
        if r < 0.92:
            return f'len([k for k in range({self.rng.randint(0, 3)})])'
        return f'max({self.expr(d + 1)}, {self.expr(d + 1)})'

    def block(self, ind: str, depth: int, in_func: bool, n: Optional[int] = None) -> list[str]:
        out: list[str] = []
        n = n if n is not None else self.rng.randint(1, 3)
        for _ in range(n):
            if self.budget <= 0:
                break
            out += self.stmt(ind, depth, in_func)
        if not out:
            out = [f'{ind}pass']
        return out

    def stmt(self, ind: str, depth: int, in_func: bool) -> list[str]:
        self.budget -= 1
        r = self.rng.random()
        if r < 0.22:
            e = self.expr()
            return [f'{ind}{self.newvar()} = {e}']
        if r < 0.30:
            return [f'{ind}{self.var()} += {self.expr(1)}']
        if r < 0.42:
            return [f"{ind}print('p{self.budget}', {self.var()})"]
        if depth <= 0:
            e = self.expr()
            return [f'{ind}{self.newvar()} = {e}']
        if r < 0.52:
            out = [f'{ind}if {self.expr(1)} % 2:'] + self.block(ind + '    ', depth - 1, in_func)
            if self.rng.random() < 0.5:
                out += [f'{ind}else:'] + self.block(ind + '    ', depth - 1, in_func)
            return out
        if r < 0.62:
            k = self.newvar()
            return [f'{ind}for {k} in range({self.rng.randint(0, 3)}):'] + self.block(ind + '    ', depth - 1, in_func)
        if r < 0.68:
            self.nvar += 1
            c = f'w{self.nvar}'          # not in self.vars: the body cannot touch the counter, so every program terminates
            return [f'{ind}{c} = 0', f'{ind}while {c} < {self.rng.randint(1, 3)}:', f'{ind}    {c} += 1'] + \
                self.block(ind + '    ', depth - 1, in_func, 1)
        if r < 0.80 and not in_func:
            self.nfun += 1
            name = f'f{self.nfun}'
            nargs = self.rng.randint(0, 2)
            args = [f'x{i}' for i in range(nargs)]
            saved_vars = self.vars
            self.vars = ['a0'] + args
            body = self.block(ind + '    ', depth - 1, True)
            ret = [f'{ind}    return {self.expr(1)}']
            self.vars = saved_vars
            self.funcs.append((name, nargs))
            return [f'{ind}def {name}({", ".join(args)}):'] + body + ret + [f'{ind}{self.newvar()} = {name}({", ".join(str(i) for i in range(nargs))})']
        if r < 0.86 and not in_func:
            self.nfun += 1
            name = f'g{self.nfun}'
            self.gens.append(name)
            return [f'{ind}def {name}(n):', f'{ind}    for i in range(n):', f'{ind}        yield i + {self.rng.randint(0, 2)}',
                    f"{ind}print('gen', list({name}(2)))"]
        if r < 0.92:
            exc = self.rng.choice(['ValueError', 'KeyError', 'ZeroDivisionError'])
            out = [f'{ind}try:'] + self.block(ind + '    ', depth - 1, in_func, 1)
            out += [f"{ind}    raise {exc}('e{self.budget}')" if exc != 'ZeroDivisionError' else f'{ind}    z{self.budget} = 1 // 0']
            out += [f'{ind}except {exc} as err:', f"{ind}    print('caught', type(err).__name__)"]
            if self.rng.random() < 0.4:
                out += [f'{ind}finally:', f"{ind}    print('fin')"]
            return out
        if r < 0.96 and not in_func:
            self.nfun += 1
            cname = f'K{self.nfun}'
            return [f'{ind}class {cname}:', f'{ind}    z = {self.rng.randint(0, 5)}', f'{ind}    def __init__(self, v):', f'{ind}        self.v = v',
                    f'{ind}    def m(self):', f'{ind}        return self.v + self.z', f"{ind}print('cls', {cname}({self.expr(1)}).m())"]
        if self.rng.random() < 0.3:
            return [f"{ind}raise RuntimeError('uncaught {self.budget}')"]
        e = self.expr()
        return [f'{ind}{self.newvar()} = {e}']


def sequential(rng: random.Random, max_stmts: int = 12) -> str:
    g = Gen(rng, max_stmts)
    lines = ['a0 = 1'] + g.block('', g.depth, False, n=max(2, max_stmts // 2))
    return '\n'.join(lines) + '\n'


# Statements whose result depends on how and where the script is compiled and executed, not only on what it says:
# annotations (evaluated eagerly unless the compiler was given the `annotations` future flag), the module namespace,
# names the runner might leak into it, exception state, closures and generators finalised at exit.
INTROSPECT_PRELUDE = ["def note(tag, v=int):", "    print('note', tag)", "    return v"]
INTROSPECT = [
    ["def ann_f(x: note('arg'), y: note('arg2', str) = 'y') -> note('ret', bool):", "    return x",
     "print('ann', sorted((k, getattr(v, '__name__', v)) for k, v in ann_f.__annotations__.items()))"],
    ["ann_v: note('module-level') = 3", "print('mod-ann', sorted((k, getattr(v, '__name__', v)) for k, v in __annotations__.items()))"],
    ["class AnnK:", "    fld: note('field', float) = 1.5", "    other: 'Undefined' = 2",
     "print('cls-ann', sorted((k, getattr(v, '__name__', v)) for k, v in AnnK.__annotations__.items()))"],
    ["import dataclasses", "@dataclasses.dataclass", "class DC:", "    n: int = 4", "    s: note('dc', str) = 's'",
     "print('dc', [(f.name, getattr(f.type, '__name__', f.type)) for f in dataclasses.fields(DC)], DC())"],
    ["print('ns', sorted(k for k in globals() if not k.startswith('__')))"],
    ["print('env', locals() is globals(), __doc__, __builtins__ is not None, type(__name__).__name__)"],
    ["import sys", "try:", "    raise KeyError('probe')", "except KeyError:", "    print('exc-info', sys.exc_info()[0].__name__, sys.exc_info()[2].tb_next is None)",
     "print('exc-info-after', sys.exc_info()[0])"],
    ["def mk():", "    c = [0]", "    def inc():", "        c[0] += 1", "        return c[0]", "    return inc", "inc = mk()", "print('closure', inc(), inc(), inc.__closure__ is not None)"],
    ["def gfin():", "    try:", "        yield 1", "        yield 2", "    finally:", "        print('gen-finalised')", "gi = gfin()", "print('gen-first', next(gi))", "gi.close()"],
    ["ann_bad: UndefinedAnnotationName = 1"],
]


def with_introspection(rng: random.Random, src: str) -> str:
    """`src` (a top-level program) with the prelude and 1–3 introspective snippets spliced in between its top-level statements"""
    lines = src.rstrip('\n').split('\n')
    tops = [i for i, l in enumerate(lines) if l and not l[0].isspace() and not l.startswith(('else', 'except', 'finally', 'elif'))]
    places = tops[1:] + [len(lines)]
    ins: dict = {}
    for sn in rng.sample(INTROSPECT, rng.randint(1, 3)):
        ins.setdefault(rng.choice(places), []).extend(sn)
    out: list = []
    for i, l in enumerate(lines + ['']):
        out += ins.get(i, [])
        if i < len(lines):
            out.append(l)
    lines = out
    return '\n'.join(INTROSPECT_PRELUDE + lines) + '\n'


def stress(rng: random.Random, nthreads: int, ncalls: int, nprints: int) -> tuple[str, dict]:
    """Threads that make trace calls and print at the same time, all started together: with a tiny thread-switch interval the
    interpreter switches between them at (almost) every bytecode boundary of the trace machinery.  Lines are assembled from
    partial writes.  Returns (source, owners)."""
    lines = ['import sys, threading', '', 'def ident(i):', '    return i', '']
    owners: dict = {}
    for t in range(nthreads):
        parts = rng.choice([2, 3, 4])
        lines += [f'def stress_body_{t}():', f'    for i in range({ncalls}):', '        ident(i)',
                  f'    for i in range({nprints}):']
        lines += [f"        sys.stdout.write('S{t}.')"] + [f"        sys.stdout.write('%d:' % i)" for _ in range(parts - 2)] + ["        sys.stdout.write('%d\\n' % i)"]
        lines += ['']
        owners[f'S{t}'] = f'stress_body_{t}'
    lines += ['ths = [' + ', '.join(f'threading.Thread(target=stress_body_{t})' for t in range(nthreads)) + ']',
              'for t in ths:', '    t.start()', 'for t in ths:', '    t.join()', "print('main done')"]
    return '\n'.join(lines) + '\n', owners


def cancelled_tasks(rng: random.Random) -> tuple[str, dict]:
    """Traced tasks that end by cancellation: explicitly, and by still being pending when `asyncio.run` returns."""
    lines = ['import asyncio', '',
             'async def waiter(i):', "    print('cw', i)", '    try:', '        await asyncio.sleep(30)', '    finally:', "        print('cw', i, 'cancelled')", '',
             'async def short(i):', '    await asyncio.sleep(0)', "    print('cs', i)", '    return i', '',
             'async def amain():', '    a = asyncio.create_task(waiter(0))', '    b = asyncio.create_task(waiter(1))',
             '    c = asyncio.create_task(short(2))', '    await c', '    a.cancel()', '    try:', '        await a',
             '    except asyncio.CancelledError:', "        print('a cancelled')",
             "    print('b is left pending')", '', 'asyncio.run(amain())', "print('main done')"]
    return '\n'.join(lines) + '\n', {}


def sequential_tasks(rng: random.Random, n: int) -> tuple[str, dict]:
    """Tasks (and threads) created one after the other, each ended and released before the next one is created: new objects
    are given the addresses of old ones."""
    lines = ['import asyncio, threading, gc', '', 'async def seq_task(i):', '    await asyncio.sleep(0)', "    print('Q', i)", '    return i', '',
             'def seq_thread(i):', "    print('R', i)", '',
             'async def amain():', f'    for i in range({n}):', '        t = asyncio.create_task(seq_task(i))', '        await t', '        del t',
             '        gc.collect()', '', 'asyncio.run(amain())',
             f'for i in range({max(2, n // 2)}):', '    th = threading.Thread(target=seq_thread, args=(i,))', '    th.start()', '    th.join()', '    del th',
             "print('main done')"]
    return '\n'.join(lines) + '\n', {}


def concurrent(rng: random.Random, nthreads: int, ntasks: int, nested: bool = False, pool: bool = False, join: bool = True) -> tuple[str, dict]:
    """A program with distinct worker functions per thread / task. Returns (source, {entity tag: function name}).
    With `pool`, the tasks also hand work to executor threads (`asyncio.to_thread`), which are reused."""
    lines = ['import threading, asyncio', '']
    owners: dict = {}
    if not join:
        # not joined, but the main script does not end before every thread it started has entered its (traced) function: a thread that reaches
        # script code for the first time after the script has ended is not traced at all (see F-G8) — that case has its own, deterministic scenarios
        lines += ['entered = threading.Semaphore(0)', '']
    if pool and ntasks:
        lines += ['def pool_work(k):', '    w = k * 2', "    print('W', k, threading.current_thread().name)", '    return w', '']
    for i in range(nthreads):
        n = rng.randint(1, 3)
        lines += [f'def thread_body_{i}():', f'    t{i} = 0'] + ([] if join else ([] if nested and i == 0 else ['    entered.release()']) + ['    import time', '    time.sleep(0.05)']) + [f'    for k in range({n}):', f'        t{i} += k', f"    print('T{i}', t{i})", '']
        owners[f'T{i}'] = f'thread_body_{i}'
    for i in range(ntasks):
        n = rng.randint(1, 3)
        lines += [f'async def task_body_{i}():', f'    c{i} = 0']
        if rng.random() < 0.5:
            # a line assembled from two partial writes with a suspension in between: other tasks of the same thread print meanwhile
            lines += [f"    print('A{i}', 'part', end=' ')"]
        else:
            lines += [f"    print('A{i}', 'whole', end=' ')", f"    print('A{i}', 'line')"]
        lines += [f'    for k in range({n}):', f'        await asyncio.sleep(0)', f'        c{i} += k']
        if pool:
            lines += [f'    c{i} += await asyncio.to_thread(pool_work, {i})', f'    c{i} += await asyncio.to_thread(pool_work, {i + 10})']
        lines += [f"    print('A{i}', c{i})", '']
        owners[f'A{i}'] = f'task_body_{i}'
    if ntasks:
        lines += ['async def amain():', '    await asyncio.gather(' + ', '.join(f'task_body_{i}()' for i in range(ntasks)) + ')', '']
    if nested and nthreads:
        lines += ['def starter():'] + ([] if join else ['    entered.release()']) + ['    inner = threading.Thread(target=thread_body_0)', '    inner.start()', '    inner.join()', '']
        lines += ['ths = [threading.Thread(target=starter)] + [threading.Thread(target=thread_body_%d) for _ in range(1)]' % (nthreads - 1 if nthreads > 1 else 0)]
        lines[-1] = 'ths = [threading.Thread(target=starter)]' + ''.join(f' + [threading.Thread(target=thread_body_{i})]' for i in range(1, nthreads))
    else:
        lines += ['ths = [' + ', '.join(f'threading.Thread(target=thread_body_{i})' for i in range(nthreads)) + ']']
    lines += ['for t in ths:', '    t.start()', 'm = 5']
    if ntasks:
        lines += ['asyncio.run(amain())']
    if join:
        lines += ['for t in ths:', '    t.join()', "print('main', m)"]
    else:
        lines += ['for t in ths:', '    entered.acquire()', "print('main', m)"]          # the threads outlive the main script: the run ends when they do
    return '\n'.join(lines) + '\n', owners


def pool_reuse(rng: random.Random, ntasks: int = 2, ncalls: int = 4) -> tuple[str, dict]:
    """An asyncio script whose tasks hand work to the default executor *one job after the other* (every job is awaited before
    the next one is submitted, so the executor reuses its idle worker thread), in the ways a function can be made to run
    somewhere else: `asyncio.to_thread` (runs it in a copy of the calling task's context), `loop.run_in_executor` (plain, and
    through `contextvars.copy_context().run`), `loop.call_soon` (a callback of the loop: main thread, no task, copy of the
    scheduling task's context), `loop.call_soon_threadsafe` from inside a job (main thread, copy of the worker's context), and
    `copy_context().run` inside the task.  The main thread, the tasks, the callbacks and the jobs all write full lines and
    partial lines; a task leaves a line unfinished across the await of a job, a worker thread across two jobs.  Every written
    piece carries a unique tag.  Returns (source, {'forms': the call forms used, 'jobs': number of job functions})."""
    chars = 'xyz é漢'
    defs: list = []
    counter = [0]
    forms_used: list = []

    def piece(tag: str) -> str:
        counter[0] += 1
        return f'{tag}.{counter[0]}' + ''.join(rng.choice(chars) for _ in range(rng.randint(0, 3)))

    def writes(tag: str, ind: str, n: int) -> list:
        out = []
        for _ in range(n):
            r = rng.random()
            if r < 0.35:
                out.append(f'{ind}print({piece(tag)!r})')
            elif r < 0.6:
                out.append(f"{ind}print({piece(tag)!r}, end=' ')")
            elif r < 0.75:
                out.append(f'{ind}sys.stdout.write({piece(tag) + chr(10)!r})')
            elif r < 0.9:
                out.append(f'{ind}sys.stdout.write({piece(tag) + chr(10) + piece(tag) + "~"!r})')
            else:
                out.append(f'{ind}print()')
        return out

    def job(kind: str) -> str:
        """a function run outside the task: 'job' (in a pool thread), 'cb' (callback of the loop), 'inl' (inside the task)"""
        name = f'{kind}_{len(defs)}'
        args = {'job': '', 'cb': 'fut', 'inl': '', 'jobts': 'loop, fut'}[kind]
        body = writes({'job': 'W', 'cb': 'C', 'inl': 'I', 'jobts': 'W'}[kind], '    ', rng.randint(1, 3))
        if kind == 'cb':
            body += ['    fut.set_result(None)']
        if kind == 'jobts':
            cbname = job('cb')
            body.insert(rng.randint(0, len(body)), f'    loop.call_soon_threadsafe({cbname}, fut)')
        defs.append((name, [f'def {name}({args}):'] + body + [f'    return {len(defs)}', '']))
        return name

    tasks: list = []
    for i in range(ntasks):
        tag = f'A{i}'
        body = [f'async def task_body_{i}():', '    loop = asyncio.get_running_loop()'] + writes(tag, '    ', rng.randint(1, 2))
        for c in range(ncalls):
            # the first two calls of the first task: the worker thread is started by one form and reused by the other one
            form = rng.choice(['to_thread', 'to_thread', 'executor', 'executor_ctx', 'call_soon', 'threadsafe', 'ctx_run'])
            if i == 0 and c < 2:
                form = [['to_thread', 'to_thread'], ['executor', 'to_thread'], ['to_thread', 'executor']][rng.randrange(3)][c]
            forms_used.append(form)
            if rng.random() < 0.6:
                body += [f"    print({piece(tag)!r}, end=' ')"]        # the task's line is unfinished while the job runs
            if form == 'to_thread':
                body += [f'    r = await asyncio.to_thread({job("job")})']
            elif form == 'executor':
                body += [f'    r = await loop.run_in_executor(None, {job("job")})']
            elif form == 'executor_ctx':
                body += [f'    r = await loop.run_in_executor(None, contextvars.copy_context().run, {job("job")})']
            elif form == 'call_soon':
                body += ['    fut = loop.create_future()', f'    loop.call_soon({job("cb")}, fut)', '    r = await fut']
            elif form == 'threadsafe':
                body += ['    fut = loop.create_future()', f'    r = await asyncio.to_thread({job("jobts")}, loop, fut)', '    await fut']
            else:
                body += [f'    r = contextvars.copy_context().run({job("inl")})']
            body += writes(tag, '    ', rng.randint(1, 2))
        if rng.random() < 0.8:
            body += [f'    print({piece(tag)!r})']
        tasks.append(body + [''])
    lines = ['import asyncio, contextvars, sys', '']
    for _, d in defs:
        lines += d
    for t in tasks:
        lines += t
    lines += ['async def amain():'] + writes('AM', '    ', 1)
    for i in range(ntasks):
        lines += [f'    await task_body_{i}()' if rng.random() < 0.4 else f'    await asyncio.create_task(task_body_{i}())']
    lines += writes('AM', '    ', 1) + [f'    print({piece("AM")!r})', '']
    lines += writes('M', '', 2) + ['asyncio.run(amain())'] + writes('M', '', 1) + [f'print({piece("M")!r})']
    return '\n'.join(lines) + '\n', {'forms': forms_used, 'jobs': len(defs)}


def unterminated_output(rng: random.Random, nthreads: int, ntasks: int, join: bool = True) -> tuple[str, dict]:
    """Programs whose output is not made of whole lines only.  Every entity (the main thread, each thread, each task) writes a
    few whole lines and pieces of lines, and the LAST write of some of them (chosen at random; at least one, see `unterminated`)
    does not end with a newline: `print(x, end='')`, `sys.stdout.write('tail')`, a progress display redrawn with '\\r', a write
    whose text has a newline in the middle, `print(x, end=' ', flush=True)`.  The others end with an ordinary line.  Threads are
    joined, or (`join=False`) outlive the main script — they have all entered their (traced) function before the script ends, as in
    `concurrent`, and write their last piece after it.
    Returns (source, {'owners': {tag: function name}, 'unterminated': [tags whose last write has no newline], 'forms': {tag: form}})."""
    forms = ['end-empty', 'write', 'progress-cr', 'newline-inside', 'end-space-flush']

    def tail(tag: str, ind: str, form: str) -> list:
        if form == 'end-empty':
            return [f"{ind}print('{tag} tail', end='')"]
        if form == 'write':
            return [f"{ind}sys.stdout.write('{tag} tail')"]
        if form == 'progress-cr':
            return [f'{ind}for pct in range(0, 101, 50):', f"{ind}    sys.stdout.write('\\r{tag} %3d%%' % pct)", f'{ind}    sys.stdout.flush()']
        if form == 'newline-inside':
            return [f"{ind}print('{tag} last whole line', '{tag} tail', sep='\\n', end='')"]
        if form == 'end-space-flush':
            return [f"{ind}print('{tag} tail', end=' ', flush=True)"]
        return [f"{ind}print('{tag} done')"]                        # 'line': an ordinary last line

    def body(tag: str, ind: str) -> list:
        out = []
        for k in range(rng.randint(1, 3)):
            r = rng.random()
            if r < 0.4:
                out.append(f"{ind}print('{tag}', {k})")
            elif r < 0.7:
                out += [f"{ind}print('{tag}', {k}, end=' ')", f"{ind}print('{tag} rest')"]
            else:
                out.append(f"{ind}sys.stdout.write('{tag} w{k}\\n')")
        return out
    tags = ['M'] + [f'T{i}' for i in range(nthreads)] + [f'A{i}' for i in range(ntasks)]
    chosen = {t: (rng.choice(forms) if rng.random() < 0.6 else 'line') for t in tags}
    if all(f == 'line' for f in chosen.values()):
        chosen[rng.choice(tags)] = rng.choice(forms)
    owners: dict = {}
    lines = ['import sys, threading, asyncio', '']
    if not join and nthreads:
        lines += ['entered = threading.Semaphore(0)', '']
    for i in range(nthreads):
        tag = f'T{i}'
        lines += [f'def thread_body_{i}():'] + (['    entered.release()', '    import time', '    time.sleep(0.05)'] if not join else [])
        lines += body(tag, '    ') + tail(tag, '    ', chosen[tag]) + ['']
        owners[tag] = f'thread_body_{i}'
    for i in range(ntasks):
        tag = f'A{i}'
        lines += [f'async def task_body_{i}():'] + body(tag, '    ') + ['    await asyncio.sleep(0)'] + tail(tag, '    ', chosen[tag]) + ['']
        owners[tag] = f'task_body_{i}'
    if ntasks:
        lines += ['async def amain():', '    await asyncio.gather(' + ', '.join(f'task_body_{i}()' for i in range(ntasks)) + ')', '']
    lines += ['ths = [' + ', '.join(f'threading.Thread(target=thread_body_{i})' for i in range(nthreads)) + ']', 'for t in ths:', '    t.start()']
    lines += body('M', '')
    if ntasks:
        lines += ['asyncio.run(amain())']
    lines += ['for t in ths:', '    t.join()' if join else '    entered.acquire()']
    lines += tail('M', '', chosen['M'])
    return '\n'.join(lines) + '\n', {'owners': owners, 'unterminated': [t for t in tags if chosen[t] != 'line'], 'forms': chosen}


def outliving_writers(rng: random.Random, nthreads: int = 2) -> tuple[str, dict]:
    """A script that starts threads and does NOT join them, the threads writing after the script's main code has returned.
    Every thread has entered its (traced) function before the script ends (the semaphore handshake of `concurrent(join=False)`),
    may write a little (possibly leaving a line unfinished), then waits for an event that the LAST statement of the main script
    sets, sleeps 0.2–0.3 s and only then writes several full and partial lines, with short pauses in between.  So that text is
    written by a traced thread while the run is only waiting for the threads the script left behind.  Every piece carries a unique
    tag and is written by exactly one `sys.stdout.write` (or by `print` if it is a full line).
    Returns (source, {'writes': {entity tag: [texts in the order written]}, 'late': {entity tag: [texts written after the script ended]}})."""
    chars = 'xyz é漢'
    counter = [0]
    writes: dict = {}
    late: dict = {}

    def piece(tag: str) -> str:
        counter[0] += 1
        return f'{tag}.{counter[0]}' + ''.join(rng.choice(chars) for _ in range(rng.randint(0, 3)))

    def stmts(tag: str, ind: str, n: int, into: list, pause: bool = False) -> list:
        out = []
        for _ in range(n):
            r = rng.random()
            if r < 0.3:
                p = piece(tag)
                out.append(f'{ind}print({p!r})')
                into.append(p + '\n')
            elif r < 0.5:
                p = piece(tag) + '\n'
                out.append(f'{ind}sys.stdout.write({p!r})')
                into.append(p)
            elif r < 0.7:
                p = piece(tag) + '~'
                out.append(f'{ind}sys.stdout.write({p!r})')
                into.append(p)
            elif r < 0.9:
                p = piece(tag) + '\n' + piece(tag) + '~'
                out.append(f'{ind}sys.stdout.write({p!r})')
                into.append(p)
            else:
                out.append(f'{ind}print()')
                into.append('\n')
            if pause and rng.random() < 0.6:
                out.append(f'{ind}time.sleep({rng.choice([0.01, 0.03, 0.05])})')
        return out

    lines = ['import sys, threading, time', '', 'entered = threading.Semaphore(0)', 'go = threading.Event()', '']
    for i in range(nthreads):
        tag = f'L{i}'
        writes[tag] = []
        late[tag] = []
        lines += [f'def late_body_{i}():', '    entered.release()']
        lines += stmts(tag, '    ', rng.randint(0, 2), writes[tag])
        lines += ['    go.wait()', f'    time.sleep({rng.choice([0.2, 0.25, 0.3])})']
        lines += stmts(tag, '    ', rng.randint(3, 6), late[tag], pause=True)
        p = piece(tag)                       # (at least one line end after the script has ended)
        lines += [f'    print({p!r})', '']
        late[tag].append(p + '\n')
        if rng.random() < 0.5:
            lines[-1:] = stmts(tag, '    ', 1, late[tag]) + ['']
        writes[tag] += late[tag]
    writes['M'] = []
    lines += ['ths = [' + ', '.join(f'threading.Thread(target=late_body_{i})' for i in range(nthreads)) + ']', 'for t in ths:', '    t.start()']
    lines += stmts('M', '', rng.randint(0, 2), writes['M'])
    lines += ['for t in ths:', '    entered.acquire()']
    p = piece('M')
    lines += [f'print({p!r})', 'go.set()']       # not joined: the threads outlive the main script; `go.set()` is its last statement
    writes['M'].append(p + '\n')
    return '\n'.join(lines) + '\n', {'writes': writes, 'late': late}


def outliving_callers(rng: random.Random, nthreads: int = 1, pause: float = 0.3) -> tuple[str, dict]:
    """A script that starts threads and does NOT join them, the threads CALLING FUNCTIONS OF THE SCRIPT after the script's main code
    has returned.  Every thread has entered its (traced) function before the script ends (the semaphore handshake of
    `concurrent(join=False)`), makes zero or more calls, then waits for an event that the LAST statement of the main script sets,
    sleeps `pause` seconds (the main thread still has to leave the script after that statement) and only then makes several calls
    into functions of the script: plain functions, a function calling another one twice, a loop over a generator, an exception
    raised in a callee and caught, a lambda calling a function, a recursive function.  No output, no timing beyond the pause; the
    events each thread executes are the same in every run.
    Returns (source, {'late_calls': {function of the thread: number of calls it makes after the script has ended}})."""
    lines = ['import threading, time', '', 'entered = threading.Semaphore(0)', 'go = threading.Event()', '',
             'def inc(n):', '    m = n + 1', '    return m', '',
             'def twice(n):', '    return inc(inc(n))', '',
             'def gen(n):', '    for i in range(n):', '        yield i', '',
             'def total(n):', '    s = 0', '    for v in gen(n % 3):', '        s += v', '    return s', '',
             'def boom(n):', '    raise ValueError(n)', '',
             'def guarded(n):', '    try:', '        boom(n)', '    except ValueError:', '        return 0', '    return n', '',
             'def rec(n):', '    if n <= 0:', '        return 0', '    return 1 + rec(n - 1)', '']
    forms = ['v = inc(v)', 'v = twice(v)', 'v += total(v)', 'v += guarded(v)', 'v = (lambda q: inc(q))(v)', 'v = rec(v % 3)', 'v = inc(v)']
    late: dict = {}

    def calls(n: int) -> list:
        return [f'    {rng.choice(forms)}' for _ in range(n)]
    for i in range(nthreads):
        n = rng.randint(2, 4)
        late[f'late_caller_{i}'] = n
        lines += [f'def late_caller_{i}():', f'    v = {i + 1}', '    entered.release()'] + calls(rng.randint(0, 1))
        lines += ['    go.wait()', f'    time.sleep({pause})'] + calls(n)
        if rng.random() < 0.5:
            lines += ['    return v']
        lines += ['']
    lines += ['ths = [' + ', '.join(f'threading.Thread(target=late_caller_{i})' for i in range(nthreads)) + ']', 'for t in ths:', '    t.start()']
    if rng.random() < 0.5:
        lines += ['m = inc(4)']
    lines += ['for t in ths:', '    entered.acquire()', 'go.set()']      # not joined: the threads outlive the main script; `go.set()` is its last statement
    return '\n'.join(lines) + '\n', {'late_calls': late}
