"""Run one script through the real `Nextline` (real spawn child) and record every public observable.

    /venv/bin/python -m harness.realrun <spec.json> <out.json>

The process' own stdout is left alone: it is what the child writes to the real standard output.
"""
from __future__ import annotations

import asyncio
import dataclasses
import json
import logging
import os
import random
import sys
import time
from pathlib import Path
from typing import Any


def _clean(obj: Any) -> Any:
    """dataclass → dict without timestamps/addresses"""
    if dataclasses.is_dataclass(obj) and not isinstance(obj, type):
        d = {}
        for f in dataclasses.fields(obj):
            if f.name.endswith('_at') or f.name in ('frame_object_id',):
                continue
            d[f.name] = _clean(getattr(obj, f.name))
        d['_type'] = type(obj).__name__
        return d
    if isinstance(obj, (list, tuple)):
        return [_clean(x) for x in obj]
    if isinstance(obj, (str, int, float, bool)) or obj is None:
        return obj
    return repr(obj)


def callable_target() -> Any:  # used for statement_kind == 'callable'
    src = os.environ['NLV_CALLABLE_SRC']
    g: dict = {'__name__': '__nlv_callable__'}
    exec(compile(src, '<callable>', 'exec', dont_inherit=True), g)
    return g['main']()


async def amain(spec: dict) -> dict:
    from nextline import Nextline
    from nextline.plugin.spec import hookimpl

    rec: dict = {'states': [], 'run_info': [], 'trace_info': [], 'trace_ids': [], 'prompt_info': [],
                 'prompt_notice': [], 'stdout': [], 'hooks': [], 'commands_sent': [], 'run_no': [],
                 'continuous': [], 'errors': []}
    statement: Any = spec['statement']
    marker = Path(spec['tmpdir']) / 'nlv-marker'
    if isinstance(statement, str):
        statement = statement.replace('@@MARKER@@', str(marker))     # a file the script creates to tell the harness where it is
    kind = spec.get('statement_kind', 'str')
    if kind == 'path':
        p = Path(spec['tmpdir']) / 'script.py'
        if spec.get('modules_env'):
            # the environment of a script file: modules next to it, and modules of the same names in a directory that comes earlier on sys.path,
            # the script's own directory being on sys.path already (further back) — `python script.py` puts the script's directory first
            env = spec['modules_env']
            proj = Path(spec['tmpdir']) / 'proj'
            lib = Path(spec['tmpdir']) / 'lib'
            proj.mkdir()
            lib.mkdir()
            for name, src in env.get('siblings', {}).items():
                (proj / f'{name}.py').write_text(src)
            for name, src in env.get('shadows', {}).items():
                (lib / f'{name}.py').write_text(src)
            sys.path.insert(0, str(lib))
            if env.get('script_dir_on_path', True):
                sys.path.append(str(proj))
            p = proj / 'script.py'
        p.write_text(statement)
        statement = p
    elif kind == 'code':
        statement = compile(statement, '<string>', 'exec', dont_inherit=True)
    elif kind == 'callable':
        os.environ['NLV_CALLABLE_SRC'] = statement
        statement = callable_target
    nl = Nextline(statement, trace_threads=spec.get('trace_threads', False),
                  trace_modules=spec.get('trace_modules', False),
                  run_no_start_from=spec.get('run_no_start_from', 1), timeout_on_exit=spec.get('timeout', 30))
    policy = spec.get('policy', {'kind': 'all', 'command': 'continue'})
    rng = random.Random(policy.get('seed', 0))
    seq = list(policy.get('commands', []))
    per_trace_count: dict = {}
    sig = spec.get('signal')
    n_events = 0
    n_prompts = 0
    signalled = False
    t_start = time.time()

    def choose(ev: Any) -> Any:
        k = policy['kind']
        if k == 'all':
            return policy['command']
        if k == 'seq':
            i = per_trace_count.get(ev.trace_no, 0)
            per_trace_count[ev.trace_no] = i + 1
            return seq[i] if i < len(seq) else policy.get('then', 'continue')
        if k == 'random':
            return rng.choice(policy['choices'])
        if k == 'withhold':
            if ev.trace_no in policy['traces']:
                return None
            return policy.get('command', 'next')
        raise ValueError(k)

    class Recorder:
        async def _ev(self, name: str, context: Any, event: Any = None) -> None:
            nonlocal n_events, signalled
            entry = {'hook': name, 'state': context.nextline.state, 'run_arg': context.run_arg is not None}
            if event is not None:
                entry['event'] = _clean(event)
            rec['hooks'].append(entry)
            if name.startswith('on_') and name not in ('on_start_run', 'on_end_run', 'on_initialize_run', 'on_finished'):
                n_events += 1
                if sig and not signalled and sig.get('at_event') and n_events >= sig['at_event']:
                    signalled = True
                    rec['signal_sent_at_event'] = n_events
                    await getattr(context.nextline, sig['kind'])()

        @hookimpl
        async def on_initialize_run(self, context: Any) -> None:
            await self._ev('on_initialize_run', context)

        @hookimpl
        async def on_start_run(self, context: Any, event: Any) -> None:
            await self._ev('on_start_run', context, event)

        @hookimpl
        async def on_end_run(self, context: Any, event: Any) -> None:
            await self._ev('on_end_run', context, event)

        @hookimpl
        async def on_finished(self, context: Any) -> None:
            await self._ev('on_finished', context)

        @hookimpl
        async def on_start_trace(self, context: Any, event: Any) -> None:
            await self._ev('on_start_trace', context, event)

        @hookimpl
        async def on_end_trace(self, context: Any, event: Any) -> None:
            await self._ev('on_end_trace', context, event)

        @hookimpl
        async def on_start_trace_call(self, context: Any, event: Any) -> None:
            await self._ev('on_start_trace_call', context, event)

        @hookimpl
        async def on_end_trace_call(self, context: Any, event: Any) -> None:
            await self._ev('on_end_trace_call', context, event)

        @hookimpl
        async def on_start_cmdloop(self, context: Any, event: Any) -> None:
            await self._ev('on_start_cmdloop', context, event)

        @hookimpl
        async def on_end_cmdloop(self, context: Any, event: Any) -> None:
            await self._ev('on_end_cmdloop', context, event)

        @hookimpl
        async def on_end_prompt(self, context: Any, event: Any) -> None:
            await self._ev('on_end_prompt', context, event)

        @hookimpl
        async def on_write_stdout(self, context: Any, event: Any) -> None:
            if spec.get('slow_plugin_s'):
                await asyncio.sleep(spec['slow_plugin_s'])        # a slow plugin: the relay falls behind the child
            await self._ev('on_write_stdout', context, event)
            if spec.get('stall_s') and event.text == spec.get('stall_on_text'):
                await asyncio.sleep(spec['stall_s'])              # one hook call that is busy for seconds (a blocking callback)

        @hookimpl
        async def on_start_prompt(self, context: Any, event: Any) -> None:
            nonlocal n_prompts, signalled
            await self._ev('on_start_prompt', context, event)
            n_prompts += 1
            if sig and not signalled and sig.get('at_prompt') == n_prompts:
                # the child is quiescent in this trace (blocked waiting for the answer): signal instead of answering
                signalled = True
                rec['signal_sent_at_prompt'] = n_prompts
                await getattr(context.nextline, sig['kind'])()
                return
            if spec.get('mode', 'interactive') == 'continuous':
                return
            cmd = choose(event)
            if cmd is None:
                return
            if spec.get('decoys'):
                tn, pn = event.trace_no, event.prompt_no
                for (t, p, c) in [(tn, pn - 1, 'p "DECOY-stale"'), (tn, pn + 1000, 'p "DECOY-future"'),
                                  (tn + 1, pn, 'p "DECOY-other"'), (9999, pn, 'p "DECOY-unknown"')]:
                    rec['commands_sent'].append([t, p, c])
                    await context.nextline.send_pdb_command(c, p, t)
            rec['commands_sent'].append([event.trace_no, event.prompt_no, cmd])
            await context.nextline.send_pdb_command(cmd, event.prompt_no, event.trace_no)
            if spec.get('decoys'):
                rec['commands_sent'].append([event.trace_no, event.prompt_no, 'p "DECOY-dup"'])
                await context.nextline.send_pdb_command('p "DECOY-dup"', event.prompt_no, event.trace_no)

    nl.register(Recorder())
    await nl.start()

    async def sub(key: str, it: Any, f: Any = _clean) -> None:
        async for x in it:
            rec[key].append(f(x))

    async def sub_states() -> None:
        import multiprocessing
        async for x in nl.subscribe_state():
            rec['states'].append(_clean(x))
            if x == 'finished':
                # C15: once 'finished' is reported the run's child process has exited
                rec.setdefault('children_alive_at_finished', []).append([p.pid for p in multiprocessing.active_children() if p.is_alive()])

    tasks = [
        asyncio.create_task(sub_states()),
        asyncio.create_task(sub('run_info', nl.subscribe_run_info())),
        asyncio.create_task(sub('trace_info', nl.subscribe_trace_info())),
        asyncio.create_task(sub('trace_ids', nl.subscribe_trace_ids())),
        asyncio.create_task(sub('prompt_info', nl.subscribe_prompt_info())),
        asyncio.create_task(sub('stdout', nl.subscribe_stdout(), lambda s: [s.trace_no, s.text, s.run_no])),
        asyncio.create_task(sub('run_no', nl.subscribe_run_no())),
        asyncio.create_task(sub('continuous', nl.subscribe_continuous_enabled())),
    ]
    await asyncio.sleep(0)
    if sig and sig.get('after_marker'):
        async def at_marker() -> None:
            nonlocal signalled
            while not marker.exists():
                await asyncio.sleep(0.01)
            await asyncio.sleep(sig.get('delay', 0.3))
            signalled = True
            rec['signal_sent_after_marker'] = {'events_delivered_so_far': n_events}
            await getattr(nl, sig['kind'])()
        tasks.append(asyncio.create_task(at_marker()))
    timeout = spec.get('timeout', 30)
    finished = False
    try:
        if spec.get('mode', 'interactive') == 'continuous':
            await asyncio.wait_for(nl.run_continue_and_wait(), timeout=timeout)
        else:
            async def go() -> None:
                async with nl.run_session():
                    ptask = asyncio.create_task(sub('prompt_notice', nl.prompts()))
                    tasks.append(ptask)
            await asyncio.wait_for(go(), timeout=timeout)
        finished = True
    except asyncio.TimeoutError:
        rec['errors'].append('timeout waiting for the run to finish')
        # where is everybody? (used to recognise known findings by their mechanism)
        import threading
        import traceback
        frames = sys._current_frames()
        rec['stacks_at_timeout'] = {th.name: [f'{fs.filename.split("/")[-1]}:{fs.lineno} {fs.name}' for fs in traceback.extract_stack(frames[th.ident])][-8:]
                                    for th in threading.enumerate() if th.ident in frames}
    except BaseException as e:  # noqa
        rec['errors'].append(f'{type(e).__name__}: {e}')
    rec['finished'] = finished
    rec['state_after_run'] = nl.state
    if finished and spec.get('second_run'):
        # the same object runs again (reset, run): what the first run left behind — e.g. after it was killed — must not matter
        n_hooks = len(rec['hooks'])
        n_cmds = len(rec['commands_sent'])
        sig = None                     # no signal in the second run
        try:
            n_rec = {k: len(rec[k]) for k in ('run_info', 'trace_info', 'prompt_info', 'stdout', 'run_no')}
            await asyncio.wait_for(nl.reset(**spec.get('second_reset', {})), timeout=10)

            async def go2() -> None:
                async with nl.run_session():
                    pass
            await asyncio.wait_for(go2(), timeout=spec.get('second_timeout', 20))
            rec['second_finished'] = True
        except asyncio.TimeoutError:
            rec['second_finished'] = False
            rec['errors'].append('timeout waiting for the second run to finish')
        except BaseException as e:  # noqa
            rec['second_finished'] = False
            rec['errors'].append(f'second run: {type(e).__name__}: {e}')
        await asyncio.sleep(0.05)
        rec['second_records'] = {k: rec[k][n:] for k, n in locals().get('n_rec', {}).items()}
        rec['second_hooks'] = rec['hooks'][n_hooks:]
        rec['second_commands_sent'] = rec['commands_sent'][n_cmds:]
        rec['second_state'] = nl.state
        finished = bool(rec.get('second_finished'))
    if finished:
        try:
            rec['result'] = _clean(nl.result())
            rec['exception'] = nl.format_exception()
        except BaseException as e:  # noqa
            rec['errors'].append(f'result: {type(e).__name__}: {e}')
        rec['trace_ids_after'] = list(nl.trace_ids)
        exited = nl._imp._context.exited_process  # exit code of the child (public via RunningProcess.process)
        rec['exitcode'] = exited.process.exitcode if exited else None
    else:
        try:
            await nl.kill()
        except BaseException:
            pass
    try:
        await asyncio.wait_for(nl.close(), timeout=10)
        rec['closed'] = nl.state
    except BaseException as e:  # noqa
        rec['errors'].append(f'close: {type(e).__name__}: {e}')
    await asyncio.sleep(0.05)
    rec['subscribers_done'] = [t.done() for t in tasks]
    for t in tasks:
        t.cancel()
    rec['wall_s'] = round(time.time() - t_start, 3)
    return rec


def _watchdog(spec: dict, out: str) -> None:
    """If the event loop itself gets blocked, nothing in amain() can time out: dump the stacks and leave."""
    import faulthandler
    import threading
    import traceback

    def fire() -> None:
        frames = sys._current_frames()
        stacks = {}
        for th in threading.enumerate():
            f = frames.get(th.ident)
            if f is not None:
                stacks[th.name] = [f'{fs.filename.split("/")[-1]}:{fs.lineno} {fs.name}' for fs in traceback.extract_stack(f)][-12:]
        Path(out).write_text(json.dumps({'finished': False, 'watchdog': True, 'stacks': stacks,
                                         'errors': ['watchdog: the process did not get to the end of the scenario (event loop blocked?)']}))
        sys.stdout.flush()
        os._exit(3)
    t = threading.Timer(spec.get('timeout', 30) + 25, fire)
    t.daemon = True
    t.start()


def main() -> None:
    logging.disable(logging.CRITICAL)
    spec = json.loads(Path(sys.argv[1]).read_text())
    _watchdog(spec, sys.argv[2])
    loop = asyncio.new_event_loop()
    rec = loop.run_until_complete(amain(spec))
    Path(sys.argv[2]).write_text(json.dumps(rec, default=str))
    sys.stdout.flush()
    # a run that never finished leaves worker threads blocked in queue.get(); do not wait for them
    os._exit(0)


if __name__ == '__main__':
    main()
