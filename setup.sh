#!/bin/bash
# Offline setup: regenerate tables from /repo, build the Lean library and the model driver.
set -e
cd "$(dirname "$0")"
if [ -f tools/translate.py ]; then /venv/bin/python tools/translate.py; fi
cd lean
lake build 2>&1 | grep -v '^✔\|^ℹ' | tail -40
test -x .lake/build/bin/nlvmodel
